//! Verification harness for barrucadu/resolved (property-based testing and
//! fuzzing).  See /verif/DESIGN.md.

#![allow(clippy::all)]

pub mod cachemodel;
pub mod engine;
pub mod fuzzrun;
pub mod gen;
pub mod mock;
pub mod props;
pub mod rwire;
pub mod rzone;
pub mod seeds;
pub mod server;
pub mod universe;
pub mod util;
pub mod wiregen;
pub mod ztext;

use engine::PropertyDef;

pub fn registry() -> Vec<PropertyDef> {
    props::all()
}

// re-exports for the fuzz crate
pub use dns_types::hosts::types::Hosts;
pub use dns_types::zones::types::Zone;

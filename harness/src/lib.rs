//! Verification harness for barrucadu/resolved (property-based testing and
//! fuzzing).  See /verif/DESIGN.md.

#![allow(clippy::all)]

pub mod cachemodel;
pub mod engine;
pub mod gen;
pub mod props;
pub mod rwire;
pub mod rzone;
pub mod util;
pub mod wiregen;
pub mod ztext;

use engine::PropertyDef;

pub fn registry() -> Vec<PropertyDef> {
    props::all()
}

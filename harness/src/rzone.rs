//! R-ZONE: reference zone model and lookup (RFC 1034 §4.3.2, RFC 4592),
//! working on a flat record list.  Shares no code or data structure with
//! `dns_types::zones::types::ZoneRecords`.  Also: a generator of zones over a
//! small name universe and conversions to the implementation's `Zone`.

use std::collections::BTreeSet;

use dns_types::protocol::types as t;
use dns_types::zones::types::{Zone, ZoneResult, SOA};
use serde::{Deserialize, Serialize};

use crate::gen::Gen;
use crate::rwire::{rr_from_impl, rr_to_impl, WData, WRR};
use crate::util::N;

pub const T_A: u16 = 1;
pub const T_NS: u16 = 2;
pub const T_CNAME: u16 = 5;
pub const T_SOA: u16 = 6;
pub const T_MX: u16 = 15;
pub const T_TXT: u16 = 16;
pub const T_AAAA: u16 = 28;
pub const T_SRV: u16 = 33;
pub const Q_AXFR: u16 = 252;
pub const Q_MAILB: u16 = 253;
pub const Q_MAILA: u16 = 254;
pub const Q_ANY: u16 = 255;

pub const SUPPORTED_TYPES: [u16; 18] = [1, 2, 3, 4, 5, 6, 7, 8, 9, 10, 11, 12, 13, 14, 15, 16, 28, 33];

#[derive(Debug, Clone, PartialEq, Eq, Hash, PartialOrd, Ord, Serialize, Deserialize)]
pub struct ZRec {
    /// Owner; for a wildcard record the name the `*` label is attached to.
    pub owner: N,
    pub wild: bool,
    pub rtype: u16,
    pub data: WData,
    pub ttl: u32,
}

#[derive(Debug, Clone, PartialEq, Eq, Hash, Serialize, Deserialize)]
pub struct SoaM {
    pub mname: N,
    pub rname: N,
    pub serial: u32,
    pub refresh: u32,
    pub retry: u32,
    pub expire: u32,
    pub minimum: u32,
}

impl SoaM {
    pub fn data(&self) -> WData {
        WData::Soa {
            mname: self.mname.clone(),
            rname: self.rname.clone(),
            serial: self.serial,
            refresh: self.refresh,
            retry: self.retry,
            expire: self.expire,
            minimum: self.minimum,
        }
    }
    pub fn to_impl(&self) -> SOA {
        SOA {
            mname: self.mname.dom(),
            rname: self.rname.dom(),
            serial: self.serial,
            refresh: self.refresh,
            retry: self.retry,
            expire: self.expire,
            minimum: self.minimum,
        }
    }
    pub fn rr(&self, apex: &N) -> WRR {
        WRR {
            name: apex.clone(),
            rtype: T_SOA,
            rclass: 1,
            ttl: self.minimum,
            data: self.data(),
        }
    }
}

#[derive(Debug, Clone, PartialEq, Eq, Hash, Serialize, Deserialize)]
pub struct ZoneModel {
    pub apex: N,
    pub soa: Option<SoaM>,
    pub recs: Vec<ZRec>,
}

/// A record as it appears in a result: (owner, type, data, ttl).
pub type RRow = (N, u16, WData, u32);

#[derive(Debug, Clone, PartialEq, Eq)]
pub enum ZR {
    Referral(Vec<RRow>),
    Answer(Vec<RRow>),
    Alias(RRow),
    NameError,
}

impl ZR {
    pub fn kind(&self) -> &'static str {
        match self {
            ZR::Referral(_) => "referral",
            ZR::Answer(r) if r.is_empty() => "nodata",
            ZR::Answer(_) => "answer",
            ZR::Alias(_) => "alias",
            ZR::NameError => "nameerror",
        }
    }
    pub fn normalised(mut self) -> ZR {
        match &mut self {
            ZR::Referral(v) | ZR::Answer(v) => v.sort(),
            _ => {}
        }
        self
    }
}

impl ZoneModel {
    pub fn clamp(&self, ttl: u32) -> u32 {
        match &self.soa {
            Some(s) => ttl.max(s.minimum),
            None => ttl,
        }
    }

    /// The flat list the zone "holds": SOA at the apex, TTLs clamped,
    /// duplicates removed.
    pub fn effective(&self) -> Vec<ZRec> {
        let mut set: BTreeSet<ZRec> = BTreeSet::new();
        let mut out = Vec::new();
        if let Some(s) = &self.soa {
            let r = ZRec {
                owner: self.apex.clone(),
                wild: false,
                rtype: T_SOA,
                data: s.data(),
                ttl: s.minimum,
            };
            set.insert(r.clone());
            out.push(r);
        }
        for r in &self.recs {
            let mut r = r.clone();
            r.owner = r.owner.lower();
            r.ttl = self.clamp(r.ttl);
            if set.insert(r.clone()) {
                out.push(r);
            }
        }
        out
    }

    pub fn exists(eff: &[ZRec], apex: &N, n: &N) -> bool {
        n == apex || eff.iter().any(|r| r.owner.is_at_or_below(n))
    }

    /// R-ZONE (DESIGN.md Appendix A).  `qname` must be at or below the apex.
    pub fn lookup(&self, qname: &N, qtype: u16) -> ZR {
        let eff = self.effective();
        self.lookup_in(&eff, qname, qtype)
    }

    pub fn lookup_in(&self, eff: &[ZRec], qname: &N, qtype: u16) -> ZR {
        self.lookup_opts(eff, qname, qtype, true)
    }

    /// `ns_at_cut_answers`: whether an NS question at a delegation point is
    /// answered from the zone (this implementation's local zones, C02) or
    /// referred like every other question there (a real authoritative server).
    pub fn lookup_opts(&self, eff: &[ZRec], qname: &N, qtype: u16, ns_at_cut_answers: bool) -> ZR {
        let qname = qname.lower();
        let apex = self.apex.lower();
        debug_assert!(qname.is_at_or_below(&apex));
        let extra = qname.depth() - apex.depth();
        // 1. cuts strictly below the apex, top-down
        for k in 1..=extra {
            let n = N(qname.0[extra - k..].to_vec());
            let ns: Vec<RRow> = eff
                .iter()
                .filter(|r| !r.wild && r.rtype == T_NS && r.owner == n)
                .map(|r| (n.clone(), r.rtype, r.data.clone(), r.ttl))
                .collect();
            if !ns.is_empty() {
                if n == qname && qtype == T_NS && ns_at_cut_answers {
                    break;
                }
                return ZR::Referral(ns);
            }
        }
        // 2. the name exists
        if Self::exists(eff, &apex, &qname) {
            let set: Vec<&ZRec> = eff.iter().filter(|r| !r.wild && r.owner == qname).collect();
            return classify(&set, &qname, qtype);
        }
        // 3. wildcard at the closest encloser
        let mut ce = qname.clone();
        while !Self::exists(eff, &apex, &ce) {
            ce = ce.parent().expect("apex exists");
        }
        let set: Vec<&ZRec> = eff.iter().filter(|r| r.wild && r.owner == ce).collect();
        if !set.is_empty() {
            return classify(&set, &qname, qtype);
        }
        ZR::NameError
    }

    /// Build the implementation's zone through the insertion API.
    pub fn to_impl(&self) -> Zone {
        let mut z = Zone::new(self.apex.dom(), self.soa.as_ref().map(SoaM::to_impl));
        for r in &self.recs {
            let rr = rr_to_impl(&WRR {
                name: r.owner.clone(),
                rtype: r.rtype,
                rclass: 1,
                ttl: r.ttl,
                data: r.data.clone(),
            })
            .expect("record representable");
            if r.wild {
                z.insert_wildcard(&rr.name, rr.rtype_with_data, rr.ttl);
            } else {
                z.insert(&rr.name, rr.rtype_with_data, rr.ttl);
            }
        }
        z
    }

    /// Flat content of an implementation zone, for comparisons:
    /// (apex, soa, sorted normal+wildcard records).
    pub fn from_impl(z: &Zone) -> ZoneModel {
        let apex = N::from_domain(z.get_apex());
        let soa = z.get_soa().map(|s| SoaM {
            mname: N::from_domain(&s.mname),
            rname: N::from_domain(&s.rname),
            serial: s.serial,
            refresh: s.refresh,
            retry: s.retry,
            expire: s.expire,
            minimum: s.minimum,
        });
        let mut recs = Vec::new();
        for (wild, map) in [(false, z.all_records()), (true, z.all_wildcard_records())] {
            for (name, zrs) in map {
                for zr in zrs {
                    let w = rr_from_impl(&zr.to_rr(name));
                    recs.push(ZRec {
                        owner: w.name,
                        wild,
                        rtype: w.rtype,
                        data: w.data,
                        ttl: w.ttl,
                    });
                }
            }
        }
        recs.sort();
        ZoneModel { apex, soa, recs }
    }

    /// Canonical comparison form: effective records sorted (SOA included).
    pub fn canonical(&self) -> (N, Option<SoaM>, Vec<ZRec>) {
        let mut eff = self.effective();
        eff.sort();
        (self.apex.lower(), self.soa.clone(), eff)
    }
}

fn classify(set: &[&ZRec], owner: &N, qtype: u16) -> ZR {
    if qtype != T_CNAME && qtype != Q_ANY {
        if let Some(c) = set.iter().find(|r| r.rtype == T_CNAME) {
            return ZR::Alias((owner.clone(), T_CNAME, c.data.clone(), c.ttl));
        }
    }
    ZR::Answer(
        set.iter()
            .filter(|r| qtype == Q_ANY || r.rtype == qtype)
            .map(|r| (owner.clone(), r.rtype, r.data.clone(), r.ttl))
            .collect(),
    )
}

pub fn row_of(rr: &t::ResourceRecord) -> RRow {
    let w = rr_from_impl(rr);
    (w.name, w.rtype, w.data, w.ttl)
}

/// The implementation's result in the same shape.
pub fn zr_from_impl(r: &ZoneResult) -> ZR {
    match r {
        ZoneResult::Answer { rrs } => ZR::Answer(rrs.iter().map(row_of).collect()),
        ZoneResult::CNAME { rr, .. } => ZR::Alias(row_of(rr)),
        ZoneResult::Delegation { ns_rrs } => ZR::Referral(ns_rrs.iter().map(row_of).collect()),
        ZoneResult::NameError => ZR::NameError,
    }
}

// --------------------------------------------------------------------------
// generation over a small universe

pub const LABELS: [&str; 6] = ["a", "b", "c", "ns", "www", "x"];

pub fn gen_label(g: &mut Gen) -> Vec<u8> {
    g.pick(&LABELS[..5]).as_bytes().to_vec()
}

/// A name of `0..=max_extra` labels below `base`.
pub fn gen_name_below(g: &mut Gen, base: &N, max_extra: usize) -> N {
    let k = g.below(max_extra + 1);
    let mut n = base.clone();
    for _ in 0..k {
        n = n.child(&gen_label(g));
    }
    n
}

/// A name somewhere in the small universe (inside or outside the zone).
pub fn gen_any_name(g: &mut Gen, apex: &N) -> N {
    match g.weighted(&[4, 2, 1, 1]) {
        0 => gen_name_below(g, apex, 2),
        1 => gen_name_below(g, &N::parse("example."), 2),
        2 => gen_name_below(g, &N::root(), 2),
        _ => N::root(),
    }
}

pub fn gen_opaque(g: &mut Gen) -> Vec<u8> {
    match g.weighted(&[3, 3, 1]) {
        0 => format!("v{}", g.below(4)).into_bytes(),
        1 => {
            let n = g.below(12);
            g.bytes(n)
        }
        _ => Vec::new(),
    }
}

pub fn gen_data(g: &mut Gen, rtype: u16, apex: &N) -> WData {
    match crate::rwire::kind_of_type(rtype) {
        1 => WData::A([10, 0, g.below(3) as u8, g.below(4) as u8]),
        2 => {
            let mut a = [0u8; 16];
            a[0] = 0xfd;
            a[15] = g.below(4) as u8;
            a[1] = g.below(2) as u8;
            WData::Aaaa(a)
        }
        3 => WData::Name(gen_any_name(g, apex)),
        4 => WData::Soa {
            mname: gen_any_name(g, apex),
            rname: gen_any_name(g, apex),
            serial: g.below(3) as u32,
            refresh: g.u32(),
            retry: g.below(100) as u32,
            expire: g.below(100) as u32,
            minimum: g.below(400) as u32,
        },
        5 => WData::Minfo(gen_any_name(g, apex), gen_any_name(g, apex)),
        6 => WData::Mx(g.below(30) as u16, gen_any_name(g, apex)),
        7 => WData::Srv(g.below(3) as u16, g.below(3) as u16, g.u16(), gen_any_name(g, apex)),
        _ => WData::Opaque(gen_opaque(g)),
    }
}

pub fn gen_rtype(g: &mut Gen) -> u16 {
    match g.weighted(&[6, 3, 3, 2, 2, 2, 3]) {
        0 => T_A,
        1 => T_NS,
        2 => T_CNAME,
        3 => T_AAAA,
        4 => T_TXT,
        5 => T_MX,
        _ => {
            // any supported type except SOA
            let ts: Vec<u16> = SUPPORTED_TYPES.iter().copied().filter(|x| *x != T_SOA).collect();
            g.pick(&ts)
        }
    }
}

pub fn gen_soa(g: &mut Gen, apex: &N) -> SoaM {
    SoaM {
        mname: gen_any_name(g, apex),
        rname: gen_any_name(g, apex),
        serial: g.below(4) as u32,
        refresh: g.below(1000) as u32,
        retry: g.below(1000) as u32,
        expire: g.below(1000) as u32,
        minimum: g.pick(&[0u32, 0, 5, 60, 300]),
    }
}

pub fn gen_ttl(g: &mut Gen) -> u32 {
    g.pick(&[300u32, 300, 1, 0, 60, 5, 86400, u32::MAX])
}

pub struct ZoneGenOpts {
    pub max_recs: usize,
    pub allow_wild: bool,
    /// Enforce deviation D1 (nothing below a non-apex cut) and D2 (no
    /// wildcard NS).
    pub enforce_scope: bool,
}

pub fn gen_zone(g: &mut Gen, apex: N, soa: Option<SoaM>, opts: &ZoneGenOpts) -> ZoneModel {
    let n = g.below(opts.max_recs + 1);
    let mut recs: Vec<ZRec> = Vec::new();
    for _ in 0..n {
        let wild = opts.allow_wild && g.chance(1, 4);
        let owner = gen_name_below(g, &apex, 3);
        let mut rtype = gen_rtype(g);
        if wild && rtype == T_NS && opts.enforce_scope {
            rtype = T_A;
        }
        let data = gen_data(g, rtype, &apex);
        let ttl = gen_ttl(g);
        recs.push(ZRec {
            owner,
            wild,
            rtype,
            data,
            ttl,
        });
    }
    // at most one CNAME per node (normal and wildcard sets separately)
    let mut seen = BTreeSet::new();
    recs.retain(|r| r.rtype != T_CNAME || seen.insert((r.owner.clone(), r.wild)));
    let mut z = ZoneModel { apex, soa, recs };
    if opts.enforce_scope {
        enforce_d1(&mut z);
    }
    z
}

/// Deviation D1: drop whatever lies strictly below a non-apex NS owner
/// (a wildcard attached to the cut itself is below it, too).
pub fn enforce_d1(z: &mut ZoneModel) {
    let cuts: Vec<N> = z
        .recs
        .iter()
        .filter(|r| !r.wild && r.rtype == T_NS && r.owner.lower() != z.apex.lower())
        .map(|r| r.owner.lower())
        .collect();
    z.recs.retain(|r| {
        !cuts.iter().any(|c| {
            let o = r.owner.lower();
            if r.wild {
                o.is_at_or_below(c)
            } else {
                o.is_at_or_below(c) && o != *c
            }
        })
    });
}

/// Query names worth asking: every owner and ancestor, their children over
/// the label alphabet plus a fresh label, and two-label fresh descendants.
pub fn interesting_names(z: &ZoneModel) -> Vec<N> {
    let apex = z.apex.lower();
    let mut nodes: BTreeSet<N> = BTreeSet::new();
    nodes.insert(apex.clone());
    for r in &z.recs {
        let mut n = r.owner.lower();
        while n.depth() >= apex.depth() {
            nodes.insert(n.clone());
            match n.parent() {
                Some(p) if n.depth() > apex.depth() => n = p,
                _ => break,
            }
        }
    }
    let mut out: BTreeSet<N> = nodes.clone();
    for n in &nodes {
        for l in LABELS {
            let c = n.child(l.as_bytes());
            if c.wire_len() <= 255 {
                out.insert(c.child(b"x"));
                out.insert(c.child(b"a"));
                out.insert(c);
            }
        }
    }
    out.into_iter().collect()
}

pub const ALL_QTYPES: [u16; 23] = [
    1, 2, 3, 4, 5, 6, 7, 8, 9, 10, 11, 12, 13, 14, 15, 16, 28, 33, 99, 252, 253, 254, 255,
];

/// Shape statistics of a zone, for classification.
pub fn zone_features(z: &ZoneModel) -> Vec<&'static str> {
    let eff = z.effective();
    let apex = z.apex.lower();
    let mut f = Vec::new();
    if eff.iter().any(|r| r.wild) {
        f.push("wildcard");
    }
    if eff.iter().any(|r| r.rtype == T_CNAME) {
        f.push("cname");
    }
    if eff.iter().any(|r| !r.wild && r.rtype == T_NS && r.owner != apex) {
        f.push("cut");
    }
    if eff.iter().any(|r| !r.wild && r.rtype == T_NS && r.owner == apex) {
        f.push("apex-ns");
    }
    // empty non-terminal: an ancestor of an owner which owns nothing itself
    let owners: BTreeSet<N> = eff.iter().filter(|r| !r.wild).map(|r| r.owner.clone()).collect();
    let mut ent = false;
    for r in &eff {
        let mut n = r.owner.clone();
        if r.wild && !owners.contains(&n) && n != apex {
            ent = true;
        }
        while let Some(p) = n.parent() {
            if p.depth() <= apex.depth() {
                break;
            }
            if !owners.contains(&p) {
                ent = true;
            }
            n = p;
        }
    }
    if ent {
        f.push("ent");
    }
    if z.soa.is_some() {
        f.push("soa");
    }
    f
}

/// Text rendering with every field explicit and every name absolute.
pub fn render_plain(z: &ZoneModel) -> String {
    let mut s = String::new();
    if let Some(soa) = &z.soa {
        s.push_str(&format!(
            "{} {} IN SOA {}\n",
            esc_name(&z.apex),
            soa.minimum,
            render_data(T_SOA, &soa.data())
        ));
    }
    for r in &z.recs {
        let owner = if r.wild {
            if r.owner.0.is_empty() {
                "*.".to_string()
            } else {
                format!("*.{}", esc_name(&r.owner))
            }
        } else {
            esc_name(&r.owner)
        };
        s.push_str(&format!(
            "{} {} IN {} {}\n",
            owner,
            r.ttl,
            type_mnemonic(r.rtype),
            render_data(r.rtype, &r.data)
        ));
    }
    s
}

pub fn type_mnemonic(t: u16) -> &'static str {
    match t {
        1 => "A",
        2 => "NS",
        3 => "MD",
        4 => "MF",
        5 => "CNAME",
        6 => "SOA",
        7 => "MB",
        8 => "MG",
        9 => "MR",
        10 => "NULL",
        11 => "WKS",
        12 => "PTR",
        13 => "HINFO",
        14 => "MINFO",
        15 => "MX",
        16 => "TXT",
        28 => "AAAA",
        33 => "SRV",
        _ => "TYPE65280",
    }
}

/// Absolute dotted name with `\DDD` escapes for anything but letters, digits, `-`, `_`.
pub fn esc_name(n: &N) -> String {
    if n.0.is_empty() {
        return ".".to_string();
    }
    let mut s = String::new();
    for l in &n.0 {
        for b in l {
            if b.is_ascii_alphanumeric() || *b == b'-' || *b == b'_' {
                s.push(*b as char);
            } else {
                s.push_str(&format!("\\{b:03}"));
            }
        }
        s.push('.');
    }
    s
}

pub fn esc_octets_quoted(o: &[u8]) -> String {
    let mut s = String::from("\"");
    for b in o {
        if b.is_ascii_alphanumeric() || *b == b' ' || *b == b'-' {
            s.push(*b as char);
        } else {
            s.push_str(&format!("\\{b:03}"));
        }
    }
    s.push('"');
    s
}

pub fn render_data(rtype: u16, d: &WData) -> String {
    match d {
        WData::A(a) => format!("{}.{}.{}.{}", a[0], a[1], a[2], a[3]),
        WData::Aaaa(a) => std::net::Ipv6Addr::from(*a).to_string(),
        WData::Name(n) => esc_name(n),
        WData::Soa {
            mname,
            rname,
            serial,
            refresh,
            retry,
            expire,
            minimum,
        } => format!(
            "{} {} {serial} {refresh} {retry} {expire} {minimum}",
            esc_name(mname),
            esc_name(rname)
        ),
        WData::Minfo(a, b) => format!("{} {}", esc_name(a), esc_name(b)),
        WData::Mx(p, n) => format!("{p} {}", esc_name(n)),
        WData::Srv(a, b, c, n) => format!("{a} {b} {c} {}", esc_name(n)),
        WData::Opaque(o) => {
            let _ = rtype;
            esc_octets_quoted(o)
        }
    }
}

//! Shared machinery: properties as sets of parts, sharded execution in child
//! processes, classification counters, shrinking through proptest, replay
//! files, known findings and evidence.

use std::cell::{Cell, RefCell};
use std::collections::hash_map::DefaultHasher;
use std::collections::{BTreeMap, BTreeSet};
use std::fmt::Debug;
use std::hash::{Hash, Hasher};
use std::io::Write as _;
use std::os::unix::fs::FileExt;
use std::path::{Path, PathBuf};
use std::time::{Duration, Instant};

use proptest::collection::vec as pvec;
use proptest::prelude::*;
use proptest::test_runner::{Config, RngSeed, TestCaseError, TestError, TestRunner};
use serde::de::DeserializeOwned;
use serde::Serialize;
use serde_json::{json, Value};

use crate::gen::{derive_seed, Gen};

pub const VERIF_ROOT: &str = "/verif";

#[derive(Debug, Clone, Copy, PartialEq, Eq)]
pub enum Tier {
    Quick,
    Thorough,
}

impl Tier {
    pub fn name(self) -> &'static str {
        match self {
            Tier::Quick => "quick",
            Tier::Thorough => "thorough",
        }
    }
    pub fn pick(self, quick: u64, thorough: u64) -> u64 {
        match self {
            Tier::Quick => quick,
            Tier::Thorough => thorough,
        }
    }
}

/// What checking one case produced.
#[derive(Debug, Clone)]
pub struct Outcome {
    /// Labels describing the shape of the case (for the class histogram).
    pub classes: Vec<String>,
    /// Whether the case is non-trivial by the property's stated rule.
    pub nontrivial: bool,
    /// `None` = the property held on this case.
    pub failure: Option<Failure>,
    /// Additional counters (e.g. queries asked inside one case).
    pub counts: Vec<(&'static str, u64)>,
}

#[derive(Debug, Clone)]
pub struct Failure {
    /// Root-cause signature (matched against known_findings.txt).
    pub signature: String,
    pub detail: String,
    /// For campaign-style cases: the concrete failing input as (part, case).
    pub replay: Option<(String, Value)>,
}

impl Outcome {
    pub fn pass(nontrivial: bool) -> Self {
        Outcome {
            classes: Vec::new(),
            nontrivial,
            failure: None,
            counts: Vec::new(),
        }
    }
    pub fn fail_with_replay(mut self, signature: impl Into<String>, detail: impl Into<String>, part: &str, case: Value) -> Self {
        if self.failure.is_none() {
            self.failure = Some(Failure {
                signature: signature.into(),
                detail: detail.into(),
                replay: Some((part.to_string(), case)),
            });
        }
        self
    }
    pub fn count(mut self, k: &'static str, n: u64) -> Self {
        self.counts.push((k, n));
        self
    }
    pub fn class(mut self, c: impl Into<String>) -> Self {
        self.classes.push(c.into());
        self
    }
    pub fn fail(mut self, signature: impl Into<String>, detail: impl Into<String>) -> Self {
        if self.failure.is_none() {
            self.failure = Some(Failure {
                signature: signature.into(),
                detail: detail.into(),
                replay: None,
            });
        }
        self
    }
}

/// A typed part of a property: a generator, an oracle and (optionally) a
/// deterministic enumeration of further cases.
pub trait Prop: Sync + Send + 'static {
    type Case: Serialize + DeserializeOwned + Hash + Debug;

    fn name(&self) -> &'static str;
    /// Number of tape entries proptest generates at most.
    fn tape_len(&self) -> usize {
        256
    }
    /// Upper bound on shrink steps (lower it for parts whose cases are slow).
    fn max_shrink_iters(&self) -> u32 {
        4000
    }
    /// Real-time limit for one case; beyond it the run is inconclusive (hang).
    fn case_timeout_s(&self) -> u64 {
        120
    }
    /// Generated cases over all shards.
    fn cases(&self, tier: Tier) -> u64;
    fn generate(&self, g: &mut Gen) -> Self::Case;
    fn check(&self, case: &Self::Case) -> Outcome;
    /// Deterministic cases (boundary sets, exhaustive small scopes): every
    /// shard calls this and keeps those for which `n % nshards == shard`.
    fn enumerate(&self, _tier: Tier, _emit: &mut dyn FnMut(Self::Case)) {}
    /// True if `enumerate` covers a finite space completely.
    fn exhaustive(&self, _tier: Tier) -> bool {
        false
    }
}

/// Object-safe view of a `Prop`.
pub trait Part: Sync + Send {
    fn name(&self) -> &'static str;
    fn tape_len(&self) -> usize;
    fn max_shrink_iters(&self) -> u32;
    fn case_timeout_s(&self) -> u64;
    fn cases(&self, tier: Tier) -> u64;
    fn exhaustive(&self, tier: Tier) -> bool;
    fn decode(&self, tape: &[u32]) -> Value;
    fn run_tape(&self, tape: &[u32]) -> (Outcome, u64);
    fn run_json(&self, case: &Value) -> Result<Outcome, String>;
    fn run_enumeration(
        &self,
        tier: Tier,
        shard: usize,
        nshards: usize,
        sink: &mut dyn FnMut(&dyn Fn() -> Value, Outcome, u64),
        pre: &mut dyn FnMut(&dyn Fn() -> Value),
    );
}

fn hash_of<T: Hash>(t: &T) -> u64 {
    let mut h = DefaultHasher::new();
    t.hash(&mut h);
    h.finish()
}

thread_local! {
    static LAST_PANIC: RefCell<Option<String>> = const { RefCell::new(None) };
}

pub fn install_panic_hook() {
    std::panic::set_hook(Box::new(|info| {
        let loc = info
            .location()
            .map(|l| format!("{}:{}", l.file(), l.line()))
            .unwrap_or_default();
        let msg = if let Some(s) = info.payload().downcast_ref::<&str>() {
            (*s).to_string()
        } else if let Some(s) = info.payload().downcast_ref::<String>() {
            s.clone()
        } else {
            "<non-string panic>".to_string()
        };
        LAST_PANIC.with(|p| *p.borrow_mut() = Some(format!("{loc}: {msg}")));
    }));
}

pub fn take_last_panic() -> Option<String> {
    LAST_PANIC.with(|p| p.borrow_mut().take())
}

/// Run `f`, turning a panic into `Err(location: message)`.
pub fn catch<T>(f: impl FnOnce() -> T) -> Result<T, String> {
    match std::panic::catch_unwind(std::panic::AssertUnwindSafe(f)) {
        Ok(v) => Ok(v),
        Err(_) => Err(take_last_panic().unwrap_or_else(|| "panic".to_string())),
    }
}

fn checked<P: Prop>(p: &P, case: &P::Case) -> Outcome {
    let t0 = Instant::now();
    let r = checked_inner(p, case);
    // debugging aid: VERIF_TRACE_SLOW=<ms> reports cases slower than that
    if let Some(ms) = std::env::var("VERIF_TRACE_SLOW").ok().and_then(|s| s.parse::<u128>().ok()) {
        if t0.elapsed().as_millis() > ms {
            let mut s = format!("{case:?}");
            s.truncate(400);
            eprintln!("SLOW {} ms in part {}: {s}", t0.elapsed().as_millis(), Prop::name(p));
        }
    }
    r
}

fn checked_inner<P: Prop>(p: &P, case: &P::Case) -> Outcome {
    match catch(|| p.check(case)) {
        Ok(o) => o,
        Err(msg) => {
            // a panic anywhere below the oracle: in the code under test it is a
            // violation of every property here (the server would crash); the
            // location tells which side panicked.
            let where_ = if msg.starts_with("src/") || msg.contains("/verif/") {
                "harness-panic"
            } else {
                "panic"
            };
            Outcome::pass(false).fail(where_, msg)
        }
    }
}

impl<P: Prop> Part for P {
    fn name(&self) -> &'static str {
        Prop::name(self)
    }
    fn tape_len(&self) -> usize {
        Prop::tape_len(self)
    }
    fn max_shrink_iters(&self) -> u32 {
        Prop::max_shrink_iters(self)
    }
    fn case_timeout_s(&self) -> u64 {
        Prop::case_timeout_s(self)
    }
    fn cases(&self, tier: Tier) -> u64 {
        Prop::cases(self, tier)
    }
    fn exhaustive(&self, tier: Tier) -> bool {
        Prop::exhaustive(self, tier)
    }
    fn decode(&self, tape: &[u32]) -> Value {
        let case = self.generate(&mut Gen::new(tape));
        serde_json::to_value(&case).unwrap_or(Value::Null)
    }
    fn run_tape(&self, tape: &[u32]) -> (Outcome, u64) {
        let case = self.generate(&mut Gen::new(tape));
        let h = hash_of(&case);
        (checked(self, &case), h)
    }
    fn run_json(&self, case: &Value) -> Result<Outcome, String> {
        let case: P::Case = serde_json::from_value(case.clone()).map_err(|e| e.to_string())?;
        Ok(checked(self, &case))
    }
    fn run_enumeration(
        &self,
        tier: Tier,
        shard: usize,
        nshards: usize,
        sink: &mut dyn FnMut(&dyn Fn() -> Value, Outcome, u64),
        pre: &mut dyn FnMut(&dyn Fn() -> Value),
    ) {
        let mut n = 0usize;
        self.enumerate(tier, &mut |case| {
            let mine = n % nshards == shard;
            n += 1;
            if !mine {
                return;
            }
            let to_json = || serde_json::to_value(&case).unwrap_or(Value::Null);
            pre(&to_json);
            let h = hash_of(&case);
            let o = checked(self, &case);
            sink(&to_json, o, h);
        });
    }
}

/// A property = id + parts + evidence metadata.
pub struct PropertyDef {
    pub id: &'static str,
    pub level: &'static str,
    pub rule: &'static str,
    pub assumptions: Vec<&'static str>,
    pub parts: Vec<Box<dyn Part>>,
    /// Wall-clock budget (seconds) after which the run is inconclusive.
    pub budget_s: fn(Tier) -> u64,
    /// Builds that must exist before the parts run (repo binaries).
    pub needs_repo_bins: bool,
}

// --------------------------------------------------------------------------
// known findings

#[derive(Debug, Clone)]
pub struct KnownFinding {
    pub property: String,
    pub signature: String,
    pub text: String,
}

pub fn load_known_findings() -> Vec<KnownFinding> {
    let path = Path::new(VERIF_ROOT).join("known_findings.txt");
    let mut out = Vec::new();
    if let Ok(s) = std::fs::read_to_string(path) {
        for line in s.lines() {
            let line = line.trim();
            if let Some(rest) = line.strip_prefix("known:") {
                let mut property = String::new();
                let mut signature = String::new();
                let mut text = Vec::new();
                for tok in rest.split_whitespace() {
                    if let Some(p) = tok.strip_prefix("property=") {
                        if property.is_empty() {
                            property = p.to_string();
                            continue;
                        }
                    }
                    if let Some(p) = tok.strip_prefix("signature=") {
                        if signature.is_empty() {
                            signature = p.to_string();
                            continue;
                        }
                    }
                    text.push(tok);
                }
                if !property.is_empty() && !signature.is_empty() {
                    out.push(KnownFinding {
                        property,
                        signature,
                        text: text.join(" "),
                    });
                }
            }
        }
    }
    out
}

// --------------------------------------------------------------------------
// shard execution (child process)

#[derive(Debug, Default, Serialize, serde::Deserialize)]
pub struct ShardReport {
    pub evaluations: u64,
    pub classes: BTreeMap<String, u64>,
    pub nontrivial_hashes: Vec<u64>,
    pub samples: Vec<Value>,
    pub violations: Vec<Value>,
    pub known_hits: BTreeMap<String, u64>,
    pub parts: BTreeMap<String, u64>,
    #[serde(default)]
    pub inconclusive: Vec<String>,
}

struct ShardState {
    report: ShardReport,
    nontrivial: BTreeSet<u64>,
    seen_violation_sigs: BTreeSet<String>,
}

impl ShardState {
    fn record(&mut self, part: &str, o: &Outcome, h: u64, sample: &dyn Fn() -> Value) {
        self.report.evaluations += 1;
        *self.report.parts.entry(part.to_string()).or_default() += 1;
        for c in &o.classes {
            *self.report.classes.entry(c.clone()).or_default() += 1;
        }
        for (k, n) in &o.counts {
            *self.report.classes.entry((*k).to_string()).or_default() += n;
        }
        // a case that could not be judged (infrastructure missing): the run
        // is inconclusive (exit 2), never "held"
        for c in &o.classes {
            if (c.starts_with("server-not-started") || c.starts_with("fuzz-not-run")) && self.report.inconclusive.len() < 3 {
                self.report.inconclusive.push(format!("part {part}: {}", o.classes.join("; ")));
            }
        }
        if o.nontrivial || self.report.samples.is_empty() {
            let fresh = if o.nontrivial { self.nontrivial.insert(h) } else { true };
            if fresh && self.report.samples.len() < 3 {
                let mut v = sample();
                let text = v.to_string();
                if text.len() > 6000 {
                    let mut end = 2000;
                    while !text.is_char_boundary(end) {
                        end -= 1;
                    }
                    v = json!({"truncated_case_json": &text[..end], "full_length": text.len()});
                }
                self.report.samples.push(json!({"part": part, "case": v}));
            }
        }
    }
}

pub struct ShardCtx<'a> {
    pub def: &'a PropertyDef,
    pub tier: Tier,
    pub seed: u64,
    pub shard: usize,
    pub nshards: usize,
    pub cur_file: PathBuf,
    pub known: BTreeSet<String>,
}

/// Per-case real-time watchdog state: when the current case started (ms since
/// process start, 0 = none) and how long a case of the current part may take.
static CASE_STARTED_MS: std::sync::atomic::AtomicU64 = std::sync::atomic::AtomicU64::new(0);
static CASE_LIMIT_MS: std::sync::atomic::AtomicU64 = std::sync::atomic::AtomicU64::new(120_000);
static PROCESS_START: std::sync::OnceLock<Instant> = std::sync::OnceLock::new();

fn elapsed_ms() -> u64 {
    PROCESS_START.get_or_init(Instant::now).elapsed().as_millis() as u64 + 1
}

/// Exit code of a shard whose case ran over its real-time limit (a hang):
/// the run is inconclusive, the case in flight is recovered by the parent.
pub const EXIT_CASE_TIMEOUT: i32 = 4;

fn start_watchdog() {
    elapsed_ms();
    std::thread::spawn(|| loop {
        std::thread::sleep(Duration::from_millis(500));
        let s = CASE_STARTED_MS.load(std::sync::atomic::Ordering::SeqCst);
        let limit = CASE_LIMIT_MS.load(std::sync::atomic::Ordering::SeqCst);
        if s != 0 && elapsed_ms().saturating_sub(s) > limit {
            std::process::exit(EXIT_CASE_TIMEOUT);
        }
    });
}

/// Violations a shard has established so far (read by the parent if the
/// shard dies later on).
fn partial_path(cur_file: &Path) -> PathBuf {
    PathBuf::from(format!("{}.partial", cur_file.display()))
}

fn write_current(file: &std::fs::File, part: usize, kind: u8, payload: &[u8]) {
    CASE_STARTED_MS.store(elapsed_ms(), std::sync::atomic::Ordering::SeqCst);
    // layout: [kind u8][part u8][len u32 le][payload]; a single pwrite at 0
    let mut buf = Vec::with_capacity(payload.len() + 6);
    buf.push(kind);
    buf.push(part as u8);
    buf.extend_from_slice(&(payload.len() as u32).to_le_bytes());
    buf.extend_from_slice(payload);
    let _ = file.write_all_at(&buf, 0);
}

pub fn run_shard(ctx: &ShardCtx) -> ShardReport {
    install_panic_hook();
    let _ = std::fs::remove_file(partial_path(&ctx.cur_file));
    let cur = std::fs::OpenOptions::new()
        .create(true)
        .write(true)
        .truncate(true)
        .open(&ctx.cur_file)
        .expect("open current-case file");
    let state = RefCell::new(ShardState {
        report: ShardReport::default(),
        nontrivial: BTreeSet::new(),
        seen_violation_sigs: BTreeSet::new(),
    });

    // debugging aid: VERIF_PARTS=a,b restricts the run to the named parts
    let only: Option<Vec<String>> = std::env::var("VERIF_PARTS").ok().map(|s| s.split(',').map(|x| x.trim().to_string()).collect());
    for (pi, part) in ctx.def.parts.iter().enumerate() {
        let pname = part.name();
        if let Some(only) = &only {
            if !only.iter().any(|o| o == pname) {
                continue;
            }
        }
        CASE_LIMIT_MS.store(part.case_timeout_s() * 1000, std::sync::atomic::Ordering::SeqCst);

        // 1. deterministic enumeration
        {
            let mut sink = |to_json: &dyn Fn() -> Value, o: Outcome, h: u64| {
                let mut st = state.borrow_mut();
                st.record(pname, &o, h, to_json);
                if let Some(f) = &o.failure {
                    if ctx.known.contains(&f.signature) {
                        *st.report.known_hits.entry(f.signature.clone()).or_default() += 1;
                    } else if st.seen_violation_sigs.insert(f.signature.clone()) {
                        // a campaign-style case (fuzzing run) names the concrete
                        // failing input itself: that becomes the replay file
                        let (rp, rc) = match &f.replay {
                            Some((p, c)) => (p.as_str(), c.clone()),
                            None => (pname, to_json()),
                        };
                        st.report.violations.push(json!({
                            "property": ctx.def.id, "part": rp, "signature": f.signature,
                            "detail": f.detail, "case": rc, "origin": "enumerated",
                        }));
                    }
                }
            };
            let mut pre = |to_json: &dyn Fn() -> Value| {
                let s = serde_json::to_vec(&to_json()).unwrap_or_default();
                write_current(&cur, pi, b'J', &s);
            };
            part.run_enumeration(ctx.tier, ctx.shard, ctx.nshards, &mut sink, &mut pre);
        }

        // 2. generated cases through proptest
        let total = part.cases(ctx.tier);
        let mine = total / ctx.nshards as u64
            + u64::from((total % ctx.nshards as u64) > ctx.shard as u64);
        if mine == 0 {
            continue;
        }
        let mut cfg = Config::default();
        cfg.cases = mine as u32;
        cfg.rng_seed = RngSeed::Fixed(derive_seed(ctx.seed, ctx.def.id, pi, ctx.shard));
        cfg.failure_persistence = None;
        cfg.max_shrink_iters = part.max_shrink_iters();
        cfg.max_shrink_time = 0;
        cfg.verbose = 0;
        cfg.max_global_rejects = 0;
        cfg.source_file = None;
        let tl = part.tape_len();
        let strategy = pvec(any::<u32>(), (tl / 8).max(1)..=tl);
        let failed = Cell::new(false);
        let first_sig: RefCell<String> = RefCell::new(String::new());
        let last_fail: RefCell<Option<(Vec<u32>, Failure)>> = RefCell::new(None);
        let mut remaining_cfg = cfg.clone();
        // After a violation is found (and shrunk) generation goes on with the
        // remaining budget, so that one finding does not hide the next; the
        // same signature is not reported twice.
        let mut done: u64 = 0;
        let mut rounds = 0;
        while done < mine && rounds < 8 {
            rounds += 1;
            remaining_cfg.cases = (mine - done) as u32;
            remaining_cfg.rng_seed = RngSeed::Fixed(derive_seed(
                ctx.seed ^ (rounds as u64) << 48,
                ctx.def.id,
                pi,
                ctx.shard,
            ));
            failed.set(false);
            let before = state.borrow().report.evaluations;
            let mut runner = TestRunner::new(remaining_cfg.clone());
            let result = runner.run(&strategy, |tape| {
                CASE_STARTED_MS.store(elapsed_ms(), std::sync::atomic::Ordering::SeqCst);
                if !failed.get() {
                    write_current(&cur, pi, b'T', bytes_of(&tape));
                }
                let (o, h) = part.run_tape(&tape);
                if failed.get() {
                    // shrinking phase: no statistics, just pass/fail; only the
                    // signature first seen counts, so that shrinking does not
                    // slide into a different (possibly known) failure
                    return match &o.failure {
                        Some(f) if f.signature == *first_sig.borrow() => {
                            *last_fail.borrow_mut() = Some((tape.clone(), f.clone()));
                            Err(TestCaseError::fail(f.signature.clone()))
                        }
                        _ => Ok(()),
                    };
                }
                let mut st = state.borrow_mut();
                st.record(pname, &o, h, &|| part.decode(&tape));
                match &o.failure {
                    None => Ok(()),
                    Some(f) if ctx.known.contains(&f.signature) => {
                        *st.report.known_hits.entry(f.signature.clone()).or_default() += 1;
                        Ok(())
                    }
                    Some(f) if st.seen_violation_sigs.contains(&f.signature) => Ok(()),
                    Some(f) => {
                        failed.set(true);
                        *first_sig.borrow_mut() = f.signature.clone();
                        *last_fail.borrow_mut() = Some((tape.clone(), f.clone()));
                        // should the shard die while shrinking (a smaller case
                        // may hang or crash), the parent still reports this
                        // failure, unshrunk
                        let marker = json!({"signature": f.signature, "detail": f.detail, "tape": tape});
                        write_current(&cur, pi, b'F', marker.to_string().as_bytes());
                        Err(TestCaseError::fail(f.signature.clone()))
                    }
                }
            });
            let after = state.borrow().report.evaluations;
            done += after - before;
            match result {
                Ok(()) => break,
                Err(TestError::Fail(_, _)) => {
                    // the smallest tape on which the failure was actually
                    // observed, with what was observed (a case that depends on
                    // hash-map iteration order may not fail on every run)
                    let observed = last_fail.borrow_mut().take();
                    let mut st = state.borrow_mut();
                    if let Some((tape, f)) = observed {
                        st.seen_violation_sigs.insert(f.signature.clone());
                        let (again, _) = part.run_tape(&tape);
                        let deterministic = again.failure.as_ref().map_or(false, |g| g.signature == f.signature);
                        st.report.violations.push(json!({
                            "property": ctx.def.id, "part": pname, "signature": f.signature,
                            "detail": f.detail, "case": part.decode(&tape), "tape": tape,
                            "origin": "generated+shrunk",
                            "replay_tries": if deterministic { 1 } else { 50 },
                        }));
                        let _ = std::fs::write(partial_path(&ctx.cur_file), serde_json::to_string(&st.report.violations).unwrap_or_default());
                    }
                }
                Err(TestError::Abort(reason)) => {
                    let mut st = state.borrow_mut();
                    st.report.violations.push(json!({
                        "property": ctx.def.id, "part": pname, "signature": "proptest-abort",
                        "detail": reason.to_string(), "case": Value::Null, "origin": "engine",
                    }));
                    break;
                }
            }
        }
    }

    CASE_STARTED_MS.store(0, std::sync::atomic::Ordering::SeqCst);
    let mut st = state.into_inner();
    st.report.nontrivial_hashes = st.nontrivial.into_iter().collect();
    st.report
}

fn bytes_of(tape: &[u32]) -> &[u8] {
    // SAFETY: u32 has no padding and any alignment ≥ 1 is fine for u8.
    unsafe { std::slice::from_raw_parts(tape.as_ptr().cast::<u8>(), tape.len() * 4) }
}

// --------------------------------------------------------------------------
// parent: spawn shards, merge, evidence

pub struct RunResult {
    pub exit_code: i32,
}

fn tmp_dir() -> PathBuf {
    let p = Path::new(VERIF_ROOT).join("target").join("tmp");
    let _ = std::fs::create_dir_all(&p);
    p
}

pub fn replay_dir(id: &str) -> PathBuf {
    Path::new(VERIF_ROOT).join("replays").join(id)
}

fn save_violation(id: &str, v: &Value) -> PathBuf {
    let dir = replay_dir(id);
    let _ = std::fs::create_dir_all(&dir);
    let mut h = DefaultHasher::new();
    v["signature"].as_str().unwrap_or("").hash(&mut h);
    v["case"].to_string().hash(&mut h);
    let path = dir.join(format!("found-{:016x}.json", h.finish()));
    if let Ok(mut f) = std::fs::File::create(&path) {
        let _ = f.write_all(serde_json::to_string_pretty(v).unwrap_or_default().as_bytes());
        let _ = f.write_all(b"\n");
    }
    path
}

/// Replays every saved case of a property; returns (count, violations).
pub fn replay_saved(def: &PropertyDef, known: &BTreeSet<String>) -> (u64, Vec<(PathBuf, Failure)>, BTreeMap<String, u64>) {
    let mut n = 0;
    let mut bad = Vec::new();
    let mut known_hits = BTreeMap::new();
    let dir = replay_dir(def.id);
    let mut files: Vec<PathBuf> = std::fs::read_dir(&dir)
        .map(|rd| rd.filter_map(|e| e.ok().map(|e| e.path())).collect())
        .unwrap_or_default();
    files.sort();
    for f in files {
        if f.extension().and_then(|e| e.to_str()) != Some("json") {
            continue;
        }
        match replay_file(def, &f) {
            Ok(o) => {
                n += 1;
                if let Some(fl) = o.failure {
                    if known.contains(&fl.signature) {
                        *known_hits.entry(fl.signature.clone()).or_default() += 1;
                    } else {
                        bad.push((f, fl));
                    }
                }
            }
            Err(e) => {
                eprintln!("replay {}: cannot run: {e}", f.display());
            }
        }
    }
    (n, bad, known_hits)
}

pub fn replay_file(def: &PropertyDef, path: &Path) -> Result<Outcome, String> {
    let s = std::fs::read_to_string(path).map_err(|e| e.to_string())?;
    let v: Value = serde_json::from_str(&s).map_err(|e| e.to_string())?;
    let part_name = v["part"].as_str().ok_or("no part")?;
    let part = def
        .parts
        .iter()
        .find(|p| p.name() == part_name)
        .ok_or_else(|| format!("unknown part {part_name}"))?;
    // Resolver-level cases depend on HashMap RandomState order: try several times.
    let tries = v["replay_tries"].as_u64().unwrap_or(1).max(1);
    let mut last = None;
    for _ in 0..tries {
        let o = part.run_json(&v["case"])?;
        if o.failure.is_some() {
            return Ok(o);
        }
        last = Some(o);
    }
    Ok(last.unwrap())
}

pub fn run_parent(def: &PropertyDef, tier: Tier, seed: u64, exe: &Path) -> RunResult {
    let t0 = Instant::now();
    let known_all = load_known_findings();
    let known: BTreeSet<String> = known_all
        .iter()
        .filter(|k| k.property == def.id)
        .map(|k| k.signature.clone())
        .collect();

    let nshards: usize = std::env::var("VERIF_SHARDS")
        .ok()
        .and_then(|s| s.parse().ok())
        .unwrap_or(16);
    let budget = Duration::from_secs((def.budget_s)(tier));
    let tmp = tmp_dir();

    // replay tier first (in a child as well, for crash isolation)
    let mut children = Vec::new();
    for shard in 0..=nshards {
        // shard == nshards is the replay worker
        let report = tmp.join(format!("{}-{}-{}.report.json", def.id, tier.name(), shard));
        let cur = tmp.join(format!("{}-{}-{}.cur", def.id, tier.name(), shard));
        let _ = std::fs::remove_file(&report);
        let _ = std::fs::remove_file(&cur);
        let _ = std::fs::remove_file(partial_path(&cur));
        let mut cmd = std::process::Command::new(exe);
        cmd.arg("--shard")
            .arg(def.id)
            .arg(tier.name())
            .arg(seed.to_string())
            .arg(shard.to_string())
            .arg(nshards.to_string())
            .arg(&report)
            .arg(&cur);
        let child = cmd.spawn().expect("spawn shard");
        children.push((shard, child, report, cur));
    }

    let mut merged = ShardReport::default();
    let mut nontrivial: BTreeSet<u64> = BTreeSet::new();
    let mut violations: Vec<Value> = Vec::new();
    let mut inconclusive: Vec<String> = Vec::new();
    let mut replayed: u64 = 0;

    for (shard, mut child, report, cur) in children {
        // wait with budget
        let status = loop {
            match child.try_wait() {
                Ok(Some(st)) => break Some(st),
                Ok(None) => {
                    if t0.elapsed() > budget {
                        let _ = child.kill();
                        let _ = child.wait();
                        break None;
                    }
                    std::thread::sleep(Duration::from_millis(20));
                }
                Err(_) => break None,
            }
        };
        match status {
            None => {
                // out of time - but what the shard had established, or was
                // shrinking, when it was stopped still counts
                if let Ok(txt) = std::fs::read_to_string(partial_path(&cur)) {
                    if let Ok(vs) = serde_json::from_str::<Vec<Value>>(&txt) {
                        violations.extend(vs);
                    }
                }
                if let Some(v) = recover_failure(def, &cur) {
                    violations.push(v);
                }
                inconclusive.push(format!("shard {shard}: wall-clock budget exceeded"));
            }
            Some(st) if st.success() => {
                match std::fs::read_to_string(&report)
                    .ok()
                    .and_then(|s| serde_json::from_str::<ShardReport>(&s).ok())
                {
                    Some(r) => {
                        if shard == nshards {
                            replayed += r.evaluations;
                            for (k, v) in r.known_hits {
                                *merged.known_hits.entry(k).or_default() += v;
                            }
                            violations.extend(r.violations);
                            continue;
                        }
                        merged.evaluations += r.evaluations;
                        for (k, v) in r.classes {
                            *merged.classes.entry(k).or_default() += v;
                        }
                        for (k, v) in r.parts {
                            *merged.parts.entry(k).or_default() += v;
                        }
                        for m in r.inconclusive {
                            inconclusive.push(format!("shard {shard}: {m}"));
                        }
                        for (k, v) in r.known_hits {
                            *merged.known_hits.entry(k).or_default() += v;
                        }
                        nontrivial.extend(r.nontrivial_hashes);
                        if merged.samples.len() < 5 {
                            merged.samples.extend(r.samples.into_iter().take(1));
                        }
                        violations.extend(r.violations);
                    }
                    None => inconclusive.push(format!("shard {shard}: no report")),
                }
            }
            Some(st) if !st.success() && (recover_failure(def, &cur).is_some() || partial_path(&cur).exists()) => {
                // the shard died, but not before it had established violations
                if let Ok(txt) = std::fs::read_to_string(partial_path(&cur)) {
                    if let Ok(vs) = serde_json::from_str::<Vec<Value>>(&txt) {
                        violations.extend(vs);
                    }
                }
                if let Some(v) = recover_failure(def, &cur) {
                    violations.push(v);
                } else {
                    inconclusive.push(format!("shard {shard}: died ({:?}) after reporting violations", st.code()));
                }
            }
            Some(st) if st.code() == Some(EXIT_CASE_TIMEOUT) => {
                // a case ran over its real-time limit: inconclusive, but say which
                let saved = recover_current(def, &cur).map(|(part, case, tape)| {
                    let dir = Path::new(VERIF_ROOT).join("target").join("hangs");
                    let _ = std::fs::create_dir_all(&dir);
                    let p = dir.join(format!("{}-{}-shard{}.json", def.id, tier.name(), shard));
                    let v = json!({"property": def.id, "part": part, "signature": "hang", "detail": "case exceeded its real-time limit", "case": case, "tape": tape});
                    let _ = std::fs::write(&p, serde_json::to_string_pretty(&v).unwrap_or_default());
                    p.display().to_string()
                });
                inconclusive.push(format!("shard {shard}: a case exceeded its real-time limit (hang?); case in flight saved to {}", saved.unwrap_or_else(|| "<not recoverable>".into())));
            }
            Some(st) => {
                // crashed: signal (stack overflow, abort) or unexpected exit
                use std::os::unix::process::ExitStatusExt;
                let what = match st.signal() {
                    Some(sig) => format!("killed by signal {sig}"),
                    None => format!("exit status {:?}", st.code()),
                };
                if st.signal() == Some(libc::SIGKILL) {
                    inconclusive.push(format!("shard {shard}: {what} (OOM?)"));
                    continue;
                }
                // recover the case that was running
                let case = recover_current(def, &cur);
                match case {
                    Some((part, case, tape)) => violations.push(json!({
                        "property": def.id, "part": part, "signature": "crash",
                        "detail": format!("worker process {what} while checking this case"),
                        "case": case, "tape": tape, "origin": "crash-recovery",
                    })),
                    None => inconclusive.push(format!("shard {shard}: {what}, case not recoverable")),
                }
            }
        }
        let _ = std::fs::remove_file(&report);
        let _ = std::fs::remove_file(&cur);
    }

    // de-duplicate violations by signature (root cause), keep the smallest case
    let mut by_sig: BTreeMap<String, Value> = BTreeMap::new();
    for v in violations {
        let sig = v["signature"].as_str().unwrap_or("").to_string();
        let size = v["case"].to_string().len();
        match by_sig.get(&sig) {
            Some(old) if old["case"].to_string().len() <= size => {}
            _ => {
                by_sig.insert(sig, v);
            }
        }
    }

    let wall = t0.elapsed().as_secs_f64();
    let mut exit_code = 0;
    for k in known_all.iter().filter(|k| k.property == def.id) {
        let hits = merged.known_hits.get(&k.signature).copied().unwrap_or(0);
        println!(
            "KNOWN-FINDING: property={} signature={} {} (cases excluded this run: {})",
            def.id, k.signature, k.text, hits
        );
    }
    let mut n_viol = 0;
    for (_sig, v) in &by_sig {
        let path = if v["origin"] == "replay" {
            PathBuf::from(v["file"].as_str().unwrap_or(""))
        } else {
            save_violation(def.id, v)
        };
        println!("VIOLATION property={} replay={}", def.id, path.display());
        eprintln!(
            "  signature={} part={} detail={}",
            v["signature"].as_str().unwrap_or(""),
            v["part"].as_str().unwrap_or(""),
            v["detail"].as_str().unwrap_or("")
        );
        n_viol += 1;
        exit_code = 1;
    }
    if exit_code == 0 && !inconclusive.is_empty() {
        exit_code = 2;
    }
    for i in &inconclusive {
        eprintln!("INCONCLUSIVE property={} {}", def.id, i);
    }

    // evidence
    let exhaustive = def.parts.iter().any(|p| p.exhaustive(tier));
    let mut samples = merged.samples.clone();
    samples.truncate(5);
    let ev = json!({
        "property_id": def.id,
        "tier": tier.name(),
        "seed": seed,
        "level": def.level,
        "coverage": {
            "evaluations": merged.evaluations + replayed,
            "distinct_nontrivial": nontrivial.len(),
            "rule": def.rule,
            "samples": samples,
            "generated_or_enumerated": merged.evaluations,
            "replayed_saved_cases": replayed,
            "per_part": merged.parts,
            "classes": merged.classes,
            "excluded_known_findings": merged.known_hits,
            "exhaustive": exhaustive,
            "shards": nshards,
            "inconclusive": inconclusive,
        },
        "assumptions": def.assumptions,
        "wall_s": wall,
        "violations": n_viol,
    });
    let evdir = Path::new(VERIF_ROOT).join("evidence");
    let _ = std::fs::create_dir_all(&evdir);
    let evpath = evdir.join(format!("{}.json", def.id));
    if merged.evaluations > 0 {
        let _ = std::fs::write(&evpath, serde_json::to_string_pretty(&ev).unwrap() + "\n");
    }
    println!(
        "property={} tier={} seed={} evaluations={} distinct_nontrivial={} replayed={} violations={} wall_s={:.1}",
        def.id,
        tier.name(),
        seed,
        merged.evaluations,
        nontrivial.len(),
        replayed,
        n_viol,
        wall
    );
    RunResult { exit_code }
}

fn recover_current(def: &PropertyDef, cur: &Path) -> Option<(String, Value, Value)> {
    let b = std::fs::read(cur).ok()?;
    if b.len() < 6 {
        return None;
    }
    let kind = b[0];
    let part = def.parts.get(b[1] as usize)?;
    let len = u32::from_le_bytes([b[2], b[3], b[4], b[5]]) as usize;
    let payload = b.get(6..6 + len)?;
    match kind {
        b'J' => {
            let v: Value = serde_json::from_slice(payload).ok()?;
            Some((part.name().to_string(), v, Value::Null))
        }
        b'T' => {
            let tape: Vec<u32> = payload
                .chunks_exact(4)
                .map(|c| u32::from_ne_bytes([c[0], c[1], c[2], c[3]]))
                .collect();
            // decoding only generates the case, it does not run the code under test
            let case = part.decode(&tape);
            Some((part.name().to_string(), case, json!(tape)))
        }
        _ => None,
    }
}

/// A failure that was observed before the shard died (while shrinking it).
fn recover_failure(def: &PropertyDef, cur: &Path) -> Option<Value> {
    let b = std::fs::read(cur).ok()?;
    if b.len() < 6 || b[0] != b'F' {
        return None;
    }
    let part = def.parts.get(b[1] as usize)?;
    let len = u32::from_le_bytes([b[2], b[3], b[4], b[5]]) as usize;
    let m: Value = serde_json::from_slice(b.get(6..6 + len)?).ok()?;
    let tape: Vec<u32> = serde_json::from_value(m["tape"].clone()).ok()?;
    Some(json!({
        "property": def.id, "part": part.name(), "signature": m["signature"], "detail": m["detail"],
        "case": part.decode(&tape), "tape": tape, "origin": "generated (the shard died while shrinking)",
        "replay_tries": 50,
    }))
}

/// Entry point of a shard child process.
pub fn shard_main(
    def: &PropertyDef,
    tier: Tier,
    seed: u64,
    shard: usize,
    nshards: usize,
    report_path: &Path,
    cur_file: &Path,
) {
    let known: BTreeSet<String> = load_known_findings()
        .into_iter()
        .filter(|k| k.property == def.id)
        .map(|k| k.signature)
        .collect();
    start_watchdog();
    let report = if shard == nshards {
        // replay worker
        install_panic_hook();
        let (n, bad, known_hits) = replay_saved(def, &known);
        let mut r = ShardReport::default();
        r.evaluations = n;
        r.known_hits = known_hits;
        for (f, fl) in bad {
            r.violations.push(json!({
                "property": def.id, "part": "replay", "signature": fl.signature,
                "detail": fl.detail, "case": Value::Null, "origin": "replay",
                "file": f.display().to_string(),
            }));
        }
        r
    } else {
        let ctx = ShardCtx {
            def,
            tier,
            seed,
            shard,
            nshards,
            cur_file: cur_file.to_path_buf(),
            known,
        };
        run_shard(&ctx)
    };
    std::fs::write(report_path, serde_json::to_vec(&report).unwrap()).expect("write report");
}

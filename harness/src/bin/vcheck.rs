//! Driver: `vcheck <ID> <quick|thorough>`, `vcheck replay <file>`,
//! and the internal `vcheck --shard ...` child mode.

use std::path::{Path, PathBuf};

use vharness::engine::{self, Tier};

fn tier_of(s: &str) -> Tier {
    match s {
        "thorough" => Tier::Thorough,
        _ => Tier::Quick,
    }
}

fn main() {
    let args: Vec<String> = std::env::args().collect();
    let reg = vharness::registry();
    if args.len() >= 2 && args[1] == "--shard" {
        // --shard ID tier seed shard nshards report cur
        let id = &args[2];
        let tier = tier_of(&args[3]);
        let seed: u64 = args[4].parse().unwrap();
        let shard: usize = args[5].parse().unwrap();
        let nshards: usize = args[6].parse().unwrap();
        let report = PathBuf::from(&args[7]);
        let cur = PathBuf::from(&args[8]);
        let def = reg.iter().find(|d| d.id == id).expect("unknown property");
        // The code under test runs on a 2 MiB stack, like a tokio worker thread.
        let res = std::thread::scope(|s| {
            std::thread::Builder::new()
                .stack_size(2 * 1024 * 1024)
                .spawn_scoped(s, || {
                    engine::shard_main(def, tier, seed, shard, nshards, &report, &cur);
                })
                .unwrap()
                .join()
        });
        if res.is_err() {
            std::process::exit(3);
        }
        return;
    }
    if args.len() >= 3 && args[1] == "replay" {
        engine::install_panic_hook();
        let path = Path::new(&args[2]);
        let s = std::fs::read_to_string(path).expect("read replay file");
        let v: serde_json::Value = serde_json::from_str(&s).expect("parse replay file");
        let id = v["property"].as_str().expect("property field");
        let def = reg.iter().find(|d| d.id == id).expect("unknown property");
        let res = std::thread::scope(|s| {
            std::thread::Builder::new()
                .stack_size(2 * 1024 * 1024)
                .spawn_scoped(s, || engine::replay_file(def, path))
                .unwrap()
                .join()
        });
        match res {
            Ok(Ok(o)) => match o.failure {
                Some(f) => {
                    let known = engine::load_known_findings()
                        .into_iter()
                        .any(|k| k.property == id && k.signature == f.signature);
                    if known {
                        println!("KNOWN-FINDING: property={id} signature={} {}", f.signature, f.detail);
                    } else {
                        println!("VIOLATION property={id} replay={}", path.display());
                        eprintln!("  signature={} detail={}", f.signature, f.detail);
                        std::process::exit(1);
                    }
                }
                None => println!("replay property={id}: case passes"),
            },
            Ok(Err(e)) => {
                eprintln!("cannot replay: {e}");
                std::process::exit(2);
            }
            Err(_) => {
                println!("VIOLATION property={id} replay={}", path.display());
                std::process::exit(1);
            }
        }
        return;
    }
    if args.len() >= 2 && args[1] == "gen-seeds" {
        vharness::seeds::write_seeds(Path::new("/verif/fuzz/seeds")).expect("write seeds");
        return;
    }
    if args.len() >= 2 && args[1] == "list" {
        for d in &reg {
            println!("{}", d.id);
        }
        return;
    }
    if args.len() < 3 {
        eprintln!("usage: vcheck <ID> <quick|thorough> | vcheck replay <file> | vcheck list");
        std::process::exit(2);
    }
    let id = &args[1];
    let tier = tier_of(&args[2]);
    let seed: u64 = std::env::var("VERIF_SEED")
        .ok()
        .and_then(|s| s.parse().ok())
        .unwrap_or(1);
    let Some(def) = reg.iter().find(|d| d.id == id) else {
        eprintln!("unknown property {id}");
        std::process::exit(2);
    };
    let exe = std::env::current_exe().expect("current_exe");
    let r = engine::run_parent(def, tier, seed, &exe);
    std::process::exit(r.exit_code);
}

//! Master-file renderer: turns a zone denotation (`ZoneModel`) into zone-file
//! text using every optional-field, layout, quoting and escaping variant of
//! RFC 1035 §5 that the property names, driven by the choice tape.

use crate::gen::Gen;
use crate::rwire::WData;
use crate::rzone::*;
use crate::util::N;

pub struct RenderOpts {
    /// Labels and RDATA may need escaping (C13); otherwise plain.
    pub layout_noise: bool,
    pub inheritance: bool,
    pub origin_changes: bool,
}

#[derive(Default, Debug, Clone)]
pub struct RenderStats {
    pub inherited_fields: u32,
    pub origin_changes: u32,
    pub multiline_groups: u32,
    pub escapes: u32,
    pub relative_names: u32,
    pub comments: u32,
}

/// One entry of the denotation in file order.
#[derive(Clone)]
enum Entry {
    Soa(SoaM),
    Rec(ZRec),
}

fn needs_escape(b: u8) -> bool {
    !(b.is_ascii_alphanumeric() || b == b'-' || b == b'_')
}

/// Escape one label octet for use inside a name token.
fn esc_label_octet(g: &mut Gen, b: u8, s: &mut String, st: &mut RenderStats) {
    if needs_escape(b) {
        st.escapes += 1;
        // \X is possible for non-digits that are printable ASCII; \DDD always
        if b.is_ascii_graphic() && !b.is_ascii_digit() && g.bool() {
            s.push('\\');
            s.push(b as char);
        } else {
            s.push_str(&format!("\\{b:03}"));
        }
    } else if g.chance(1, 40) {
        st.escapes += 1;
        s.push_str(&format!("\\{b:03}"));
    } else {
        s.push(b as char);
    }
}

fn label_text(g: &mut Gen, l: &[u8], upper: bool, st: &mut RenderStats) -> String {
    let mut s = String::new();
    for b in l {
        let b = if upper { b.to_ascii_uppercase() } else { *b };
        esc_label_octet(g, b, &mut s, st);
    }
    s
}

/// A plain label: rendering it unescaped is safe in every position.
fn is_plain_label(l: &[u8]) -> bool {
    !l.is_empty() && l.iter().all(|b| !needs_escape(*b))
}

/// Would this relative text be mistaken for something else by the grammar
/// itself (deviation D6)?  Single plain tokens equal to a mnemonic, `IN`, a
/// directive, all digits, `@` or starting with `*`.
fn ambiguous_relative(text: &str) -> bool {
    if text.contains('.') {
        return text.starts_with("*.");
    }
    let up = text.to_ascii_uppercase();
    text == "@"
        || text.starts_with('*')
        || text.starts_with('$')
        || text.chars().all(|c| c.is_ascii_digit())
        || up == "IN"
        || up == "CH"
        || up == "HS"
        || up.starts_with("TYPE")
        || up.starts_with("CLASS")
        || SUPPORTED_TYPES.iter().any(|t| type_mnemonic(*t) == up)
}

/// Render a name given the current origin.
pub fn name_text(g: &mut Gen, n: &N, origin: Option<&N>, o: &RenderOpts, st: &mut RenderStats) -> String {
    let n = n.clone();
    if n.0.is_empty() {
        if let Some(or) = origin {
            if or.0.is_empty() && g.bool() {
                return "@".to_string();
            }
        }
        return ".".to_string();
    }
    let upper = o.layout_noise && g.chance(1, 6);
    if let Some(or) = origin {
        if n.is_at_or_below(or) && g.chance(2, 3) {
            if n.lower() == or.lower() {
                st.relative_names += 1;
                return "@".to_string();
            }
            let keep = n.depth() - or.depth();
            // relative form; escaped octets keep it unambiguous except for
            // the D6 cases, which fall through to the absolute form
            let mut parts = Vec::new();
            for l in &n.0[..keep] {
                parts.push(label_text(g, l, upper && keep > 1, st));
            }
            let text = parts.join(".");
            let plain: String = n.0[..keep]
                .iter()
                .map(|l| String::from_utf8_lossy(l).to_string())
                .collect::<Vec<_>>()
                .join(".");
            if !ambiguous_relative(&plain) && !text.is_empty() {
                st.relative_names += 1;
                return text;
            }
        }
    }
    let mut s = String::new();
    for l in &n.0 {
        s.push_str(&label_text(g, l, upper, st));
        s.push('.');
    }
    // an absolute name whose first label is "*" or which is "@." cannot be
    // confused: "@." is not "@"; but "*.x." in owner position is a wildcard,
    // so owners never have a first label "*" here (see gen in c11/c13)
    s
}

fn opaque_text(g: &mut Gen, o: &[u8], st: &mut RenderStats) -> String {
    let safe_unquoted = !o.is_empty()
        && o.iter().all(|b| b.is_ascii_lowercase())
        && !ambiguous_relative(&String::from_utf8_lossy(o));
    if safe_unquoted && g.chance(1, 3) {
        return String::from_utf8_lossy(o).to_string();
    }
    let mut s = String::from("\"");
    for b in o {
        let b = *b;
        if b == b'"' || b == b'\\' {
            st.escapes += 1;
            if g.bool() {
                s.push('\\');
                s.push(b as char);
            } else {
                s.push_str(&format!("\\{b:03}"));
            }
        } else if b == b'\n' && g.chance(1, 3) {
            s.push('\n'); // a quoted string may run over a line end
        } else if (32..127).contains(&b) && !(b.is_ascii_digit() && s.ends_with('\\')) {
            if g.chance(1, 30) {
                st.escapes += 1;
                s.push_str(&format!("\\{b:03}"));
            } else {
                s.push(b as char);
            }
        } else {
            st.escapes += 1;
            s.push_str(&format!("\\{b:03}"));
        }
    }
    s.push('"');
    s
}

fn data_tokens(g: &mut Gen, d: &WData, origin: Option<&N>, o: &RenderOpts, st: &mut RenderStats) -> Vec<String> {
    let mut nm = |g: &mut Gen, n: &N, st: &mut RenderStats| name_text(g, n, origin, o, st);
    match d {
        WData::A(a) => vec![format!("{}.{}.{}.{}", a[0], a[1], a[2], a[3])],
        WData::Aaaa(a) => {
            let ip = std::net::Ipv6Addr::from(*a);
            let s = if g.chance(1, 4) {
                // full form
                let seg = ip.segments();
                seg.iter().map(|x| format!("{x:04X}")).collect::<Vec<_>>().join(":")
            } else {
                ip.to_string()
            };
            vec![s]
        }
        WData::Name(n) => vec![nm(g, n, st)],
        WData::Soa {
            mname,
            rname,
            serial,
            refresh,
            retry,
            expire,
            minimum,
        } => vec![
            nm(g, mname, st),
            nm(g, rname, st),
            serial.to_string(),
            refresh.to_string(),
            retry.to_string(),
            expire.to_string(),
            minimum.to_string(),
        ],
        WData::Minfo(a, b) => vec![nm(g, a, st), nm(g, b, st)],
        WData::Mx(p, n) => vec![p.to_string(), nm(g, n, st)],
        WData::Srv(a, b, c, n) => vec![a.to_string(), b.to_string(), c.to_string(), nm(g, n, st)],
        WData::Opaque(o) => vec![opaque_text(g, o, st)],
    }
}

fn sep(g: &mut Gen, noise: bool) -> String {
    if !noise {
        return " ".to_string();
    }
    match g.weighted(&[6, 2, 1, 1]) {
        0 => " ".to_string(),
        1 => "\t".to_string(),
        2 => "   ".to_string(),
        _ => " \t ".to_string(),
    }
}

fn comment(g: &mut Gen) -> String {
    g.pick(&["; comment", ";", "; a \"quoted\" (thing) ; twice", ";$ORIGIN nowhere.", "; IN A 1.2.3.4"])
        .to_string()
}

/// Join tokens into one entry, optionally as a parenthesised multi-line group.
fn layout(g: &mut Gen, tokens: &[String], noise: bool, st: &mut RenderStats, indent: bool) -> String {
    let mut s = String::new();
    if indent && noise && g.bool() {
        s.push_str(&sep(g, true));
    }
    let group = noise && tokens.len() >= 3 && g.chance(1, 5);
    let open_at = if group { g.range(1, tokens.len() - 1) } else { usize::MAX };
    if group {
        st.multiline_groups += 1;
    }
    let mut in_group = false;
    for (i, t) in tokens.iter().enumerate() {
        if i > 0 {
            if in_group && g.chance(1, 2) {
                if g.chance(1, 3) {
                    s.push(' ');
                    s.push_str(&comment(g));
                    st.comments += 1;
                }
                s.push('\n');
                s.push_str(&sep(g, true));
            } else {
                s.push_str(&sep(g, noise));
            }
        }
        if i == open_at {
            s.push('(');
            s.push_str(&sep(g, true));
            in_group = true;
        }
        s.push_str(t);
    }
    if in_group {
        if g.bool() {
            s.push('\n');
        }
        s.push_str(" )");
    }
    if noise && g.chance(1, 6) {
        s.push_str(&sep(g, true));
        s.push_str(&comment(g));
        st.comments += 1;
    }
    if noise && g.chance(1, 8) {
        s.push_str("\r\n");
    } else {
        s.push('\n');
    }
    s
}

/// Render the denotation.  The text denotes exactly `z` (modulo the SOA-minimum clamp).
pub fn render(g: &mut Gen, z: &ZoneModel, o: &RenderOpts) -> (String, RenderStats) {
    let mut st = RenderStats::default();
    let mut entries: Vec<Entry> = z.recs.iter().cloned().map(Entry::Rec).collect();
    if let Some(s) = &z.soa {
        let at = g.below(entries.len() + 1).min(if g.chance(3, 4) { 0 } else { usize::MAX });
        entries.insert(at.min(entries.len()), Entry::Soa(s.clone()));
    }
    let mut text = String::new();
    let mut origin: Option<N> = None;
    let mut prev_owner: Option<(N, bool)> = None;
    let mut prev_ttl: Option<u32> = None;

    if o.origin_changes || g.bool() {
        // most files start with an $ORIGIN
        if g.chance(3, 4) {
            let or = if g.chance(2, 3) { z.apex.clone() } else { N::root() };
            text.push_str(&format!("$ORIGIN{}{}\n", sep(g, o.layout_noise), esc_name(&or)));
            origin = Some(or);
        }
    }

    for e in &entries {
        if o.layout_noise && g.chance(1, 8) {
            text.push_str(if g.bool() { "\n" } else { "  \t\n" });
        }
        if o.layout_noise && g.chance(1, 10) {
            text.push_str(&comment(g));
            text.push('\n');
            st.comments += 1;
        }
        if o.origin_changes && g.chance(1, 6) {
            // move the origin: to the apex, to some owner's parent, to the
            // root, or one label below the current origin (written relative)
            let new = match g.weighted(&[3, 2, 1, 2]) {
                0 => z.apex.clone(),
                1 => match e {
                    Entry::Rec(r) => r.owner.clone(),
                    Entry::Soa(_) => z.apex.clone(),
                },
                2 => N::root(),
                _ => origin.clone().unwrap_or_else(N::root).child(g.pick(&["a", "b", "sub"]).as_bytes()),
            };
            if new.wire_len() <= 200 {
                let rel = match &origin {
                    Some(or) if new.depth() == or.depth() + 1 && new.is_at_or_below(or) && g.bool() => {
                        let l = String::from_utf8_lossy(&new.0[0]).to_string();
                        if ambiguous_relative(&l) || !is_plain_label(&new.0[0]) { None } else { Some(l) }
                    }
                    _ => None,
                };
                let t = rel.unwrap_or_else(|| esc_name(&new));
                text.push_str(&layout(g, &["$ORIGIN".to_string(), t], o.layout_noise, &mut st, false));
                origin = Some(new);
                st.origin_changes += 1;
            }
        }
        let (owner, wild, ttl, rtype, data): (N, bool, u32, u16, WData) = match e {
            Entry::Soa(s) => (z.apex.clone(), false, s.minimum, T_SOA, s.data()),
            Entry::Rec(r) => (r.owner.clone(), r.wild, r.ttl, r.rtype, r.data.clone()),
        };
        let mut tokens: Vec<String> = Vec::new();
        // owner
        let same_owner = prev_owner.as_ref().map_or(false, |(n, w)| n.lower() == owner.lower() && *w == wild);
        let omit_owner = o.inheritance && same_owner && g.chance(1, 2);
        if omit_owner {
            st.inherited_fields += 1;
        } else {
            let base = name_text(g, &owner, origin.as_ref(), o, &mut st);
            if wild {
                if base == "@" {
                    tokens.push("*".to_string());
                } else if base == "." {
                    tokens.push("*.".to_string());
                } else {
                    tokens.push(format!("*.{base}"));
                }
            } else {
                tokens.push(base);
            }
        }
        // ttl / class
        let is_soa = rtype == T_SOA;
        let can_omit_ttl = o.inheritance && (prev_ttl == Some(ttl) || (is_soa && prev_ttl.is_none()) || is_soa);
        let omit_ttl = can_omit_ttl && g.chance(1, 2);
        let omit_class = o.inheritance && g.chance(1, 2);
        let ttl_tok = ttl.to_string();
        match (omit_ttl, omit_class) {
            (false, false) => {
                if g.bool() {
                    tokens.push(ttl_tok);
                    tokens.push("IN".into());
                } else {
                    tokens.push("IN".into());
                    tokens.push(ttl_tok);
                }
            }
            (false, true) => {
                tokens.push(ttl_tok);
                st.inherited_fields += 1;
            }
            (true, false) => {
                tokens.push("IN".into());
                st.inherited_fields += 1;
            }
            (true, true) => st.inherited_fields += 2,
        }
        tokens.push(type_mnemonic(rtype).to_string());
        tokens.extend(data_tokens(g, &data, origin.as_ref(), o, &mut st));
        text.push_str(&layout(g, &tokens, o.layout_noise, &mut st, omit_owner));
        prev_owner = Some((owner, wild));
        // what the next entry inherits: this entry's TTL.  A SOA written
        // without TTL after a different TTL is ambiguous for its successor
        // (deviation D6): the next entry then carries an explicit TTL.
        prev_ttl = if is_soa && omit_ttl && prev_ttl.is_some() && prev_ttl != Some(ttl) {
            None
        } else {
            Some(ttl)
        };
    }
    (text, st)
}

//! Running the shipped `resolved` binary (guard off) on loopback and talking
//! to it over UDP and TCP with plain blocking sockets.

use std::io::{Read, Write};
use std::net::{Shutdown, SocketAddr, TcpStream, UdpSocket};
use std::os::unix::process::CommandExt;
use std::path::{Path, PathBuf};
use std::process::{Child, Command, Stdio};
use std::time::{Duration, Instant};

pub const RESOLVED_BIN: &str = "/verif/target/repo-bins/release/resolved";

pub struct Server {
    pub child: Child,
    pub addr: SocketAddr,
    pub dir: PathBuf,
    pub log_path: PathBuf,
}

impl Drop for Server {
    fn drop(&mut self) {
        let _ = self.child.kill();
        let _ = self.child.wait();
        let _ = std::fs::remove_dir_all(&self.dir);
    }
}

/// A free loopback port (UDP and TCP).
pub fn free_port() -> u16 {
    // Every harness process walks its own stride through 20000..60000 so that
    // concurrently running shards do not pick the same port between the probe
    // and the server's own bind.
    use std::sync::atomic::{AtomicU32, Ordering};
    static NEXT: AtomicU32 = AtomicU32::new(0);
    let pid = std::process::id();
    for _ in 0..2000 {
        let n = NEXT.fetch_add(1, Ordering::Relaxed);
        let p = 20_000 + ((pid.wrapping_mul(7919).wrapping_add(n.wrapping_mul(61))) % 40_000) as u16;
        if UdpSocket::bind(("127.0.0.1", p)).is_ok() && std::net::TcpListener::bind(("127.0.0.1", p)).is_ok() {
            return p;
        }
    }
    panic!("no free port");
}

pub fn scratch(prefix: &str) -> PathBuf {
    use std::sync::atomic::{AtomicU64, Ordering};
    static N: AtomicU64 = AtomicU64::new(0);
    let p = PathBuf::from(format!("/verif/target/tmp/{prefix}-{}-{}", std::process::id(), N.fetch_add(1, Ordering::Relaxed)));
    let _ = std::fs::remove_dir_all(&p);
    std::fs::create_dir_all(&p).expect("scratch dir");
    p
}

impl Server {
    /// Start `resolved` with the given extra arguments; the directory is
    /// removed when the server is dropped.  `ready` is a query whose answer
    /// signals that the server is up.
    pub fn start(dir: PathBuf, args: &[String], ready_query: &[u8]) -> Result<Server, String> {
        if !Path::new(RESOLVED_BIN).exists() {
            return Err(format!("{RESOLVED_BIN} not built"));
        }
        for attempt in 0..5 {
            let port = free_port();
            let mport = free_port();
            let addr: SocketAddr = format!("127.0.0.1:{port}").parse().unwrap();
            let log_path = dir.join(format!("server-{attempt}.log"));
            let log = std::fs::File::create(&log_path).map_err(|e| e.to_string())?;
            let mut cmd = Command::new(RESOLVED_BIN);
            cmd.arg("-i")
                .arg(addr.to_string())
                .arg("--metrics-address")
                .arg(format!("127.0.0.1:{mport}"))
                .args(args)
                .env("RUST_LOG", "info")
                .env("RUST_LOG_FORMAT", "no-ansi")
                .stdin(Stdio::null())
                .stdout(log.try_clone().map_err(|e| e.to_string())?)
                .stderr(log);
            unsafe {
                cmd.pre_exec(|| {
                    // die with the harness process
                    libc::prctl(libc::PR_SET_PDEATHSIG, libc::SIGKILL);
                    Ok(())
                });
            }
            let mut child = cmd.spawn().map_err(|e| e.to_string())?;
            // wait until it answers
            let t0 = Instant::now();
            let mut up = false;
            while t0.elapsed() < Duration::from_secs(8) {
                if let Ok(Some(_)) = child.try_wait() {
                    break;
                }
                if let Ok(Some(_)) = udp_exchange(addr, ready_query, Duration::from_millis(200)) {
                    up = true;
                    break;
                }
                std::thread::sleep(Duration::from_millis(20));
            }
            if up {
                // the metrics endpoint is bound last; a failure there makes the
                // server exit: wait for that bind to be over before trusting it
                let t1 = Instant::now();
                while t1.elapsed() < Duration::from_secs(3) {
                    let log = std::fs::read_to_string(&log_path).unwrap_or_default();
                    if log.contains("binding HTTP TCP socket") {
                        break;
                    }
                    std::thread::sleep(Duration::from_millis(10));
                }
                std::thread::sleep(Duration::from_millis(150));
                if matches!(child.try_wait(), Ok(None)) {
                    return Ok(Server { child, addr, dir, log_path });
                }
            }
            let _ = child.kill();
            let _ = child.wait();
        }
        Err("server did not come up".into())
    }

    pub fn alive(&mut self) -> bool {
        matches!(self.child.try_wait(), Ok(None))
    }

    pub fn signal(&self, sig: i32) {
        unsafe {
            libc::kill(self.child.id() as i32, sig);
        }
    }

    pub fn log_text(&self) -> String {
        std::fs::read_to_string(&self.log_path).unwrap_or_default()
    }
}

/// Send one datagram from a fresh socket and wait for one reply.
pub fn udp_exchange(addr: SocketAddr, msg: &[u8], timeout: Duration) -> std::io::Result<Option<Vec<u8>>> {
    let s = UdpSocket::bind("127.0.0.1:0")?;
    s.connect(addr)?;
    s.set_read_timeout(Some(timeout))?;
    s.send(msg)?;
    let mut buf = vec![0u8; 65_536];
    match s.recv(&mut buf) {
        Ok(n) => Ok(Some(buf[..n].to_vec())),
        Err(e) if e.kind() == std::io::ErrorKind::WouldBlock || e.kind() == std::io::ErrorKind::TimedOut => Ok(None),
        Err(e) => Err(e),
    }
}

/// How the payload of a TCP message is delivered.
#[derive(Debug, Clone, Copy, PartialEq, Eq, Hash, serde::Serialize, serde::Deserialize)]
pub enum TcpStyle {
    /// length prefix and payload in one write
    Whole,
    /// prefix and payload dribbled in small pieces with pauses
    Pieces,
    /// announce `extra` more octets than are sent, then close the write side
    ShortThenClose(u16),
    /// append junk after the payload
    Trailing(u8),
}

/// Result of one TCP conversation: the reply (prefix value, payload) if any.
pub fn tcp_exchange(addr: SocketAddr, payload: &[u8], style: TcpStyle, timeout: Duration) -> std::io::Result<Option<(u16, Vec<u8>)>> {
    let mut s = TcpStream::connect_timeout(&addr, Duration::from_secs(2))?;
    s.set_read_timeout(Some(timeout))?;
    s.set_nodelay(true)?;
    let announced = match style {
        TcpStyle::ShortThenClose(extra) => payload.len() + extra as usize,
        _ => payload.len(),
    }
    .min(65_535) as u16;
    let mut wire = announced.to_be_bytes().to_vec();
    wire.extend_from_slice(payload);
    if let TcpStyle::Trailing(n) = style {
        wire.extend(std::iter::repeat(0xAB).take(n as usize));
    }
    match style {
        TcpStyle::Pieces => {
            let mut i = 0;
            let mut step = 1;
            while i < wire.len() {
                let end = (i + step).min(wire.len());
                // the server may answer (and close) before it has the whole
                // message: stop sending and read what it said
                if s.write_all(&wire[i..end]).is_err() || s.flush().is_err() {
                    break;
                }
                std::thread::sleep(Duration::from_millis(2));
                i = end;
                step = (step * 3).min(4096);
            }
        }
        _ => s.write_all(&wire)?,
    }
    if matches!(style, TcpStyle::ShortThenClose(_)) {
        let _ = s.shutdown(Shutdown::Write);
    }
    let mut lenb = [0u8; 2];
    match read_full(&mut s, &mut lenb) {
        Ok(true) => {}
        Ok(false) => return Ok(None),
        Err(e) if e.kind() == std::io::ErrorKind::WouldBlock || e.kind() == std::io::ErrorKind::TimedOut => return Ok(None),
        Err(e) if e.kind() == std::io::ErrorKind::ConnectionReset => return Ok(None),
        Err(e) => return Err(e),
    }
    let n = u16::from_be_bytes(lenb);
    // read everything up to EOF: the prefix must describe exactly what follows
    let mut rest = Vec::new();
    let mut buf = [0u8; 8192];
    loop {
        match s.read(&mut buf) {
            Ok(0) => break,
            Ok(k) => {
                rest.extend_from_slice(&buf[..k]);
                if rest.len() > 70_000 {
                    break;
                }
            }
            Err(e) if e.kind() == std::io::ErrorKind::WouldBlock || e.kind() == std::io::ErrorKind::TimedOut => break,
            Err(e) if e.kind() == std::io::ErrorKind::ConnectionReset => break,
            Err(e) => return Err(e),
        }
    }
    Ok(Some((n, rest)))
}

fn read_full(s: &mut TcpStream, buf: &mut [u8]) -> std::io::Result<bool> {
    let mut got = 0;
    while got < buf.len() {
        match s.read(&mut buf[got..])? {
            0 => return Ok(false),
            k => got += k,
        }
    }
    Ok(true)
}

//! R-WIRE: a from-scratch RFC 1035 §4.1 / RFC 3596 / RFC 2782 message codec on
//! a neutral structure.  Shares no code with `dns_types::protocol`.
//!
//! Policy (DESIGN.md, Appendix B): trailing bytes after the last counted
//! record are ignored; a compression pointer must target an offset strictly
//! before the start of the name (sub)sequence being read; an expanded name is
//! at most 255 octets; structured RDATA must end exactly at RDLENGTH; other
//! types are opaque; labels are stored lower-cased.

use serde::{Deserialize, Serialize};

use crate::util::N;

#[derive(Debug, Clone, PartialEq, Eq, Hash, Serialize, Deserialize)]
pub struct WMsg {
    pub id: u16,
    pub qr: bool,
    pub opcode: u8,
    pub aa: bool,
    pub tc: bool,
    pub rd: bool,
    pub ra: bool,
    pub rcode: u8,
    pub questions: Vec<WQ>,
    pub answers: Vec<WRR>,
    pub authority: Vec<WRR>,
    pub additional: Vec<WRR>,
}

#[derive(Debug, Clone, PartialEq, Eq, Hash, Serialize, Deserialize)]
pub struct WQ {
    pub name: N,
    pub qtype: u16,
    pub qclass: u16,
}

#[derive(Debug, Clone, PartialEq, Eq, Hash, Serialize, Deserialize)]
pub struct WRR {
    pub name: N,
    pub rtype: u16,
    pub rclass: u16,
    pub ttl: u32,
    pub data: WData,
}

#[derive(Debug, Clone, PartialEq, Eq, Hash, PartialOrd, Ord, Serialize, Deserialize)]
pub enum WData {
    A([u8; 4]),
    Aaaa([u8; 16]),
    /// NS, MD, MF, CNAME, MB, MG, MR, PTR
    Name(N),
    Soa {
        mname: N,
        rname: N,
        serial: u32,
        refresh: u32,
        retry: u32,
        expire: u32,
        minimum: u32,
    },
    Minfo(N, N),
    Mx(u16, N),
    Srv(u16, u16, u16, N),
    /// NULL, WKS, HINFO, TXT and every type not listed above
    Opaque(#[serde(with = "crate::util::hexbytes")] Vec<u8>),
}

#[derive(Debug, Clone, PartialEq, Eq)]
pub enum WErr {
    NoId,
    Short,
    BadLabel,
    BadPointer,
    NameTooLong,
    RdLength,
}

pub const SINGLE_NAME_TYPES: [u16; 8] = [2, 3, 4, 5, 7, 8, 9, 12];

pub fn kind_of_type(t: u16) -> u8 {
    // 0 opaque, 1 A, 2 AAAA, 3 single name, 4 SOA, 5 MINFO, 6 MX, 7 SRV
    match t {
        1 => 1,
        28 => 2,
        2 | 3 | 4 | 5 | 7 | 8 | 9 | 12 => 3,
        6 => 4,
        14 => 5,
        15 => 6,
        33 => 7,
        _ => 0,
    }
}

struct Rd<'a> {
    b: &'a [u8],
    pos: usize,
}

impl<'a> Rd<'a> {
    fn u8(&mut self) -> Result<u8, WErr> {
        let v = *self.b.get(self.pos).ok_or(WErr::Short)?;
        self.pos += 1;
        Ok(v)
    }
    fn u16(&mut self) -> Result<u16, WErr> {
        Ok(u16::from(self.u8()?) << 8 | u16::from(self.u8()?))
    }
    fn u32(&mut self) -> Result<u32, WErr> {
        Ok(u32::from(self.u16()?) << 16 | u32::from(self.u16()?))
    }
    fn take(&mut self, n: usize) -> Result<&'a [u8], WErr> {
        if self.pos + n > self.b.len() {
            return Err(WErr::Short);
        }
        let s = &self.b[self.pos..self.pos + n];
        self.pos += n;
        Ok(s)
    }

    /// Reads a name at the cursor; the cursor ends after the first pointer or
    /// the root octet of the in-line part.
    fn name(&mut self) -> Result<N, WErr> {
        let mut labels: Vec<Vec<u8>> = Vec::new();
        let mut total = 0usize; // octets of the expanded name so far, without root
        let mut start = self.pos; // start of the (sub)sequence being read
        let mut at = self.pos;
        let mut resume: Option<usize> = None; // where the in-line part ended
        loop {
            let l = *self.b.get(at).ok_or(WErr::Short)?;
            if l == 0 {
                at += 1;
                if resume.is_none() {
                    resume = Some(at);
                }
                break;
            } else if l <= 63 {
                let s = self
                    .b
                    .get(at + 1..at + 1 + l as usize)
                    .ok_or(WErr::Short)?;
                total += 1 + l as usize;
                if total + 1 > 255 {
                    return Err(WErr::NameTooLong);
                }
                labels.push(s.to_ascii_lowercase());
                at += 1 + l as usize;
            } else if l >= 192 {
                let lo = *self.b.get(at + 1).ok_or(WErr::Short)?;
                let p = (usize::from(l & 63) << 8) | usize::from(lo);
                if resume.is_none() {
                    resume = Some(at + 2);
                }
                if p >= start {
                    return Err(WErr::BadPointer);
                }
                start = p;
                at = p;
            } else {
                return Err(WErr::BadLabel);
            }
        }
        self.pos = resume.unwrap();
        Ok(N(labels))
    }
}

pub fn decode(b: &[u8]) -> Result<WMsg, WErr> {
    if b.len() < 2 {
        return Err(WErr::NoId);
    }
    let mut r = Rd { b, pos: 0 };
    let id = r.u16()?;
    let f1 = r.u8()?;
    let f2 = r.u8()?;
    let qd = r.u16()?;
    let an = r.u16()?;
    let ns = r.u16()?;
    let ar = r.u16()?;
    let mut questions = Vec::new();
    for _ in 0..qd {
        let name = r.name()?;
        let qtype = r.u16()?;
        let qclass = r.u16()?;
        questions.push(WQ { name, qtype, qclass });
    }
    let mut sections: [Vec<WRR>; 3] = [Vec::new(), Vec::new(), Vec::new()];
    for (i, count) in [an, ns, ar].into_iter().enumerate() {
        for _ in 0..count {
            sections[i].push(rr(&mut r)?);
        }
    }
    let [answers, authority, additional] = sections;
    Ok(WMsg {
        id,
        qr: f1 & 0x80 != 0,
        opcode: (f1 >> 3) & 0x0f,
        aa: f1 & 0x04 != 0,
        tc: f1 & 0x02 != 0,
        rd: f1 & 0x01 != 0,
        ra: f2 & 0x80 != 0,
        rcode: f2 & 0x0f,
        questions,
        answers,
        authority,
        additional,
    })
}

fn rr(r: &mut Rd) -> Result<WRR, WErr> {
    let name = r.name()?;
    let rtype = r.u16()?;
    let rclass = r.u16()?;
    let ttl = r.u32()?;
    let rdlen = r.u16()? as usize;
    let start = r.pos;
    let data = match kind_of_type(rtype) {
        1 => {
            let s = r.take(4)?;
            WData::A([s[0], s[1], s[2], s[3]])
        }
        2 => {
            let s = r.take(16)?;
            let mut a = [0u8; 16];
            a.copy_from_slice(s);
            WData::Aaaa(a)
        }
        3 => WData::Name(r.name()?),
        4 => WData::Soa {
            mname: r.name()?,
            rname: r.name()?,
            serial: r.u32()?,
            refresh: r.u32()?,
            retry: r.u32()?,
            expire: r.u32()?,
            minimum: r.u32()?,
        },
        5 => WData::Minfo(r.name()?, r.name()?),
        6 => WData::Mx(r.u16()?, r.name()?),
        7 => WData::Srv(r.u16()?, r.u16()?, r.u16()?, r.name()?),
        _ => WData::Opaque(r.take(rdlen)?.to_vec()),
    };
    if r.pos != start + rdlen {
        return Err(WErr::RdLength);
    }
    Ok(WRR {
        name,
        rtype,
        rclass,
        ttl,
        data,
    })
}

// --------------------------------------------------------------------------
// reference encoder with free compression choices

/// How the encoder compresses one name.
pub trait Chooser {
    /// `options` = number of earlier offsets this suffix could point to
    /// (0 = none).  Return `None` to write the next label in-line, or
    /// `Some(i)` to emit a pointer to option `i`.
    fn choose(&mut self, options: usize) -> Option<usize>;
}

pub struct NoCompression;
impl Chooser for NoCompression {
    fn choose(&mut self, _options: usize) -> Option<usize> {
        None
    }
}

pub struct Enc {
    pub out: Vec<u8>,
    /// (suffix labels, offset) of every label sequence start written so far
    table: Vec<(Vec<Vec<u8>>, usize)>,
    /// every pointer emitted: (position, target, expanded name at target)
    pub pointers: Vec<(usize, usize)>,
}

impl Enc {
    pub fn new() -> Self {
        Enc {
            out: Vec::new(),
            table: Vec::new(),
            pointers: Vec::new(),
        }
    }
    pub fn u8(&mut self, v: u8) {
        self.out.push(v);
    }
    pub fn u16(&mut self, v: u16) {
        self.out.extend_from_slice(&v.to_be_bytes());
    }
    pub fn u32(&mut self, v: u32) {
        self.out.extend_from_slice(&v.to_be_bytes());
    }
    pub fn name(&mut self, n: &N, ch: &mut dyn Chooser) {
        let labels = &n.0;
        let name_start = self.out.len();
        for i in 0..labels.len() {
            let suffix = &labels[i..];
            let opts: Vec<usize> = self
                .table
                .iter()
                .filter(|(s, off)| s[..] == *suffix && *off < 0x4000 && *off < name_start)
                .map(|(_, off)| *off)
                .collect();
            if !opts.is_empty() {
                if let Some(k) = ch.choose(opts.len()) {
                    let target = opts[k.min(opts.len() - 1)];
                    self.pointers.push((self.out.len(), target));
                    self.u16(0xc000 | target as u16);
                    return;
                }
            }
            self.table.push((suffix.to_vec(), self.out.len()));
            self.u8(labels[i].len() as u8);
            self.out.extend_from_slice(&labels[i]);
        }
        self.u8(0);
    }
}

pub fn encode_with(m: &WMsg, ch: &mut dyn Chooser) -> Enc {
    let mut e = Enc::new();
    e.u16(m.id);
    e.u8((u8::from(m.qr) << 7)
        | ((m.opcode & 15) << 3)
        | (u8::from(m.aa) << 2)
        | (u8::from(m.tc) << 1)
        | u8::from(m.rd));
    e.u8((u8::from(m.ra) << 7) | (m.rcode & 15));
    e.u16(m.questions.len() as u16);
    e.u16(m.answers.len() as u16);
    e.u16(m.authority.len() as u16);
    e.u16(m.additional.len() as u16);
    for q in &m.questions {
        e.name(&q.name, ch);
        e.u16(q.qtype);
        e.u16(q.qclass);
    }
    for sec in [&m.answers, &m.authority, &m.additional] {
        for rr in sec {
            e.name(&rr.name, ch);
            e.u16(rr.rtype);
            e.u16(rr.rclass);
            e.u32(rr.ttl);
            let lenpos = e.out.len();
            e.u16(0);
            match &rr.data {
                WData::A(a) => e.out.extend_from_slice(a),
                WData::Aaaa(a) => e.out.extend_from_slice(a),
                WData::Name(n) => e.name(n, ch),
                WData::Soa {
                    mname,
                    rname,
                    serial,
                    refresh,
                    retry,
                    expire,
                    minimum,
                } => {
                    e.name(mname, ch);
                    e.name(rname, ch);
                    e.u32(*serial);
                    e.u32(*refresh);
                    e.u32(*retry);
                    e.u32(*expire);
                    e.u32(*minimum);
                }
                WData::Minfo(a, b) => {
                    e.name(a, ch);
                    e.name(b, ch);
                }
                WData::Mx(p, n) => {
                    e.u16(*p);
                    e.name(n, ch);
                }
                WData::Srv(a, b, c, n) => {
                    e.u16(*a);
                    e.u16(*b);
                    e.u16(*c);
                    e.name(n, ch);
                }
                WData::Opaque(o) => e.out.extend_from_slice(o),
            }
            let rdlen = e.out.len() - lenpos - 2;
            e.out[lenpos] = (rdlen >> 8) as u8;
            e.out[lenpos + 1] = rdlen as u8;
        }
    }
    e
}

pub fn encode_plain(m: &WMsg) -> Vec<u8> {
    encode_with(m, &mut NoCompression).out
}

/// Is the data variant the right one for the type code?
pub fn data_matches_type(rtype: u16, d: &WData) -> bool {
    matches!(
        (kind_of_type(rtype), d),
        (0, WData::Opaque(_))
            | (1, WData::A(_))
            | (2, WData::Aaaa(_))
            | (3, WData::Name(_))
            | (4, WData::Soa { .. })
            | (5, WData::Minfo(..))
            | (6, WData::Mx(..))
            | (7, WData::Srv(..))
    )
}

// --------------------------------------------------------------------------
// conversion from/to the implementation's types (public fields only)

use dns_types::protocol::types as t;

pub fn from_impl(m: &t::Message) -> WMsg {
    WMsg {
        id: m.header.id,
        qr: m.header.is_response,
        opcode: u8::from(m.header.opcode),
        aa: m.header.is_authoritative,
        tc: m.header.is_truncated,
        rd: m.header.recursion_desired,
        ra: m.header.recursion_available,
        rcode: u8::from(m.header.rcode),
        questions: m
            .questions
            .iter()
            .map(|q| WQ {
                name: N::from_domain(&q.name),
                qtype: u16::from(q.qtype),
                qclass: u16::from(q.qclass),
            })
            .collect(),
        answers: m.answers.iter().map(rr_from_impl).collect(),
        authority: m.authority.iter().map(rr_from_impl).collect(),
        additional: m.additional.iter().map(rr_from_impl).collect(),
    }
}

pub fn rr_from_impl(rr: &t::ResourceRecord) -> WRR {
    use t::RecordTypeWithData as D;
    let n = N::from_domain;
    let data = match &rr.rtype_with_data {
        D::A { address } => WData::A(address.octets()),
        D::AAAA { address } => WData::Aaaa(address.octets()),
        D::NS { nsdname } => WData::Name(n(nsdname)),
        D::MD { madname } | D::MF { madname } | D::MB { madname } => WData::Name(n(madname)),
        D::CNAME { cname } => WData::Name(n(cname)),
        D::MG { mdmname } => WData::Name(n(mdmname)),
        D::MR { newname } => WData::Name(n(newname)),
        D::PTR { ptrdname } => WData::Name(n(ptrdname)),
        D::SOA {
            mname,
            rname,
            serial,
            refresh,
            retry,
            expire,
            minimum,
        } => WData::Soa {
            mname: n(mname),
            rname: n(rname),
            serial: *serial,
            refresh: *refresh,
            retry: *retry,
            expire: *expire,
            minimum: *minimum,
        },
        D::MINFO { rmailbx, emailbx } => WData::Minfo(n(rmailbx), n(emailbx)),
        D::MX {
            preference,
            exchange,
        } => WData::Mx(*preference, n(exchange)),
        D::SRV {
            priority,
            weight,
            port,
            target,
        } => WData::Srv(*priority, *weight, *port, n(target)),
        D::NULL { octets }
        | D::WKS { octets }
        | D::HINFO { octets }
        | D::TXT { octets }
        | D::Unknown { octets, .. } => WData::Opaque(octets.to_vec()),
    };
    WRR {
        name: n(&rr.name),
        rtype: u16::from(rr.rtype_with_data.rtype()),
        rclass: u16::from(rr.rclass),
        ttl: rr.ttl,
        data,
    }
}

/// Build the implementation's `Message`; `None` if some name is not
/// constructible (too long) or data does not fit the type.
pub fn to_impl(m: &WMsg) -> Option<t::Message> {
    Some(t::Message {
        header: t::Header {
            id: m.id,
            is_response: m.qr,
            opcode: t::Opcode::from(m.opcode),
            is_authoritative: m.aa,
            is_truncated: m.tc,
            recursion_desired: m.rd,
            recursion_available: m.ra,
            rcode: t::Rcode::from(m.rcode),
        },
        questions: m
            .questions
            .iter()
            .map(|q| {
                Some(t::Question {
                    name: q.name.to_domain()?,
                    qtype: t::QueryType::from(q.qtype),
                    qclass: t::QueryClass::from(q.qclass),
                })
            })
            .collect::<Option<Vec<_>>>()?,
        answers: m.answers.iter().map(rr_to_impl).collect::<Option<Vec<_>>>()?,
        authority: m.authority.iter().map(rr_to_impl).collect::<Option<Vec<_>>>()?,
        additional: m.additional.iter().map(rr_to_impl).collect::<Option<Vec<_>>>()?,
    })
}

pub fn rr_to_impl(rr: &WRR) -> Option<t::ResourceRecord> {
    use t::RecordTypeWithData as D;
    let b = |o: &Vec<u8>| bytes::Bytes::copy_from_slice(o);
    let data = match (rr.rtype, &rr.data) {
        (1, WData::A(a)) => D::A {
            address: std::net::Ipv4Addr::from(*a),
        },
        (28, WData::Aaaa(a)) => D::AAAA {
            address: std::net::Ipv6Addr::from(*a),
        },
        (2, WData::Name(n)) => D::NS {
            nsdname: n.to_domain()?,
        },
        (3, WData::Name(n)) => D::MD {
            madname: n.to_domain()?,
        },
        (4, WData::Name(n)) => D::MF {
            madname: n.to_domain()?,
        },
        (5, WData::Name(n)) => D::CNAME {
            cname: n.to_domain()?,
        },
        (7, WData::Name(n)) => D::MB {
            madname: n.to_domain()?,
        },
        (8, WData::Name(n)) => D::MG {
            mdmname: n.to_domain()?,
        },
        (9, WData::Name(n)) => D::MR {
            newname: n.to_domain()?,
        },
        (12, WData::Name(n)) => D::PTR {
            ptrdname: n.to_domain()?,
        },
        (
            6,
            WData::Soa {
                mname,
                rname,
                serial,
                refresh,
                retry,
                expire,
                minimum,
            },
        ) => D::SOA {
            mname: mname.to_domain()?,
            rname: rname.to_domain()?,
            serial: *serial,
            refresh: *refresh,
            retry: *retry,
            expire: *expire,
            minimum: *minimum,
        },
        (14, WData::Minfo(a, c)) => D::MINFO {
            rmailbx: a.to_domain()?,
            emailbx: c.to_domain()?,
        },
        (15, WData::Mx(p, n)) => D::MX {
            preference: *p,
            exchange: n.to_domain()?,
        },
        (33, WData::Srv(a, c, d, n)) => D::SRV {
            priority: *a,
            weight: *c,
            port: *d,
            target: n.to_domain()?,
        },
        (10, WData::Opaque(o)) => D::NULL { octets: b(o) },
        (11, WData::Opaque(o)) => D::WKS { octets: b(o) },
        (13, WData::Opaque(o)) => D::HINFO { octets: b(o) },
        (16, WData::Opaque(o)) => D::TXT { octets: b(o) },
        (ty, WData::Opaque(o)) => match t::RecordType::from(ty) {
            t::RecordType::Unknown(tag) => D::Unknown { tag, octets: b(o) },
            _ => return None,
        },
        _ => return None,
    };
    Some(t::ResourceRecord {
        name: rr.name.to_domain()?,
        rtype_with_data: data,
        rclass: t::RecordClass::from(rr.rclass),
        ttl: rr.ttl,
    })
}

// --------------------------------------------------------------------------
// pointer audit of an encoding produced by someone else

/// Walks `bytes` along the structure of `m` (the message that was encoded)
/// and checks every compression pointer: its target is below 16384, lies
/// before the name being written, and is an offset at which an identical
/// name (suffix) was written in-line earlier.  Returns the number of
/// pointers seen.
pub fn audit_pointers(bytes: &[u8], m: &WMsg) -> Result<usize, String> {
    use std::collections::HashMap;
    let mut written: HashMap<usize, Vec<Vec<u8>>> = HashMap::new();
    let mut pointers = 0usize;
    let mut pos = 12usize;

    fn walk(
        bytes: &[u8],
        pos: &mut usize,
        expect: &N,
        written: &mut std::collections::HashMap<usize, Vec<Vec<u8>>>,
        pointers: &mut usize,
    ) -> Result<(), String> {
        let labels: Vec<Vec<u8>> = expect.lower().0;
        let start = *pos;
        let mut i = 0usize;
        let mut fresh: Vec<(usize, Vec<Vec<u8>>)> = Vec::new();
        loop {
            let l = *bytes.get(*pos).ok_or("audit: ran off the end")?;
            if l == 0 {
                *pos += 1;
                if i != labels.len() {
                    return Err(format!("audit: name at {start} ends early"));
                }
                break;
            } else if l <= 63 {
                let s = bytes.get(*pos + 1..*pos + 1 + l as usize).ok_or("audit: short label")?;
                if i >= labels.len() || s.to_ascii_lowercase() != labels[i] {
                    return Err(format!("audit: label {i} of name at {start} differs"));
                }
                fresh.push((*pos, labels[i..].to_vec()));
                *pos += 1 + l as usize;
                i += 1;
            } else if l >= 192 {
                let lo = *bytes.get(*pos + 1).ok_or("audit: short pointer")?;
                let target = (usize::from(l & 63) << 8) | usize::from(lo);
                *pointers += 1;
                if target >= start {
                    return Err(format!("audit: pointer at {} targets {target}, not before the name at {start}", *pos));
                }
                // was the identical name written at target + k*16384?  Then the
                // pointer is a 14-bit truncation of an unaddressable offset
                let truncated = (1..4usize).any(|k| written.get(&(target + 0x4000 * k)).map_or(false, |s| s[..] == labels[i..]));
                let tag = if truncated { " [truncated-pointer]" } else { "" };
                match written.get(&target) {
                    Some(suffix) if suffix[..] == labels[i..] => {}
                    Some(suffix) => {
                        return Err(format!(
                            "audit: pointer at {} targets offset {target} where {:?} was written, expected {:?}{tag}",
                            *pos,
                            N(suffix.clone()).to_string(),
                            N(labels[i..].to_vec()).to_string()
                        ))
                    }
                    None => {
                        return Err(format!(
                            "audit: pointer at {} targets offset {target} where no name was written{tag}",
                            *pos
                        ))
                    }
                }
                *pos += 2;
                break;
            } else {
                return Err(format!("audit: reserved label type at {}", *pos));
            }
        }
        for (off, suffix) in fresh {
            written.entry(off).or_insert(suffix);
        }
        Ok(())
    }

    for q in &m.questions {
        walk(bytes, &mut pos, &q.name, &mut written, &mut pointers)?;
        pos += 4;
    }
    for sec in [&m.answers, &m.authority, &m.additional] {
        for rr in sec {
            walk(bytes, &mut pos, &rr.name, &mut written, &mut pointers)?;
            pos += 8;
            let rdlen = u16::from_be_bytes([
                *bytes.get(pos).ok_or("audit: short")?,
                *bytes.get(pos + 1).ok_or("audit: short")?,
            ]) as usize;
            pos += 2;
            let end = pos + rdlen;
            match &rr.data {
                WData::Name(n) => walk(bytes, &mut pos, n, &mut written, &mut pointers)?,
                WData::Soa { mname, rname, .. } => {
                    walk(bytes, &mut pos, mname, &mut written, &mut pointers)?;
                    walk(bytes, &mut pos, rname, &mut written, &mut pointers)?;
                }
                WData::Minfo(a, b) => {
                    walk(bytes, &mut pos, a, &mut written, &mut pointers)?;
                    walk(bytes, &mut pos, b, &mut written, &mut pointers)?;
                }
                WData::Mx(_, n) => {
                    pos += 2;
                    walk(bytes, &mut pos, n, &mut written, &mut pointers)?;
                }
                WData::Srv(_, _, _, n) => {
                    pos += 6;
                    walk(bytes, &mut pos, n, &mut written, &mut pointers)?;
                }
                _ => {}
            }
            if pos > end {
                return Err(format!("audit: RDATA overruns RDLENGTH at {pos}"));
            }
            pos = end;
        }
    }
    if pos != bytes.len() {
        return Err(format!("audit: {} trailing bytes", bytes.len() as i64 - pos as i64));
    }
    Ok(pointers)
}

//! Generators of well-formed messages (neutral `WMsg` form) and of
//! adversarial byte strings, shared by C03, C04 and C09.

use crate::gen::Gen;
use crate::rwire::*;
use crate::util::N;

pub const KNOWN_TYPES: [u16; 18] = [1, 2, 3, 4, 5, 6, 7, 8, 9, 10, 11, 12, 13, 14, 15, 16, 28, 33];

pub struct MsgOpts {
    pub max_rrs: usize,
    pub max_questions: usize,
    /// Upper bound for opaque RDATA in ordinary records.
    pub max_opaque: usize,
    pub long_names: bool,
}

impl MsgOpts {
    pub fn small() -> Self {
        MsgOpts {
            max_rrs: 3,
            max_questions: 2,
            max_opaque: 24,
            long_names: true,
        }
    }
}

fn gen_label(g: &mut Gen) -> Vec<u8> {
    match g.weighted(&[8, 2, 1, 1]) {
        0 => g.pick(&["a", "b", "www", "example", "com", "ns1"]).as_bytes().to_vec(),
        1 => {
            // any octets, mixed case
            let n = g.range(1, 10);
            g.bytes(n)
        }
        2 => vec![b'x'; 63],
        _ => {
            let n = g.range(1, 63);
            (0..n).map(|i| b"AbCdEfGh-0"[i % 10]).collect()
        }
    }
}

pub fn gen_name(g: &mut Gen, long: bool) -> N {
    if long && g.chance(1, 12) {
        // exactly 255 octets: 63+63+63+61 (+4 length octets +1 root)
        let fill = g.u8();
        return N(vec![
            vec![b'a' + fill % 26; 63],
            vec![b'b'; 63],
            vec![b'c'; 63],
            vec![b'd'; 61],
        ]);
    }
    let k = g.weighted(&[1, 3, 4, 3, 1, 1]);
    let mut n = N((0..k).map(|_| gen_label(g)).collect());
    // a well-formed name: at most 255 octets
    while n.wire_len() > 255 {
        n.0.pop();
    }
    n
}

/// A pool of names so that names repeat inside one message.
pub fn gen_pool(g: &mut Gen, long: bool) -> Vec<N> {
    let n = g.range(1, 6);
    let mut pool: Vec<N> = Vec::new();
    for i in 0..n {
        if i > 0 && g.chance(1, 8) {
            // the same octets with a different label boundary: "a.b" as one
            // label next to the labels "a" and "b" (same dotted spelling,
            // different name)
            let base = g.pick_ref(&pool).clone();
            if base.0.len() >= 2 && base.0[0].len() + base.0[1].len() + 1 <= 63 {
                let mut joined = base.0[0].clone();
                joined.push(b'.');
                joined.extend_from_slice(&base.0[1]);
                let mut labels = vec![joined];
                labels.extend(base.0[2..].iter().cloned());
                pool.push(N(labels));
                continue;
            }
        }
        if i > 0 && g.chance(1, 3) {
            // a child or parent of an earlier name: shared suffixes
            let base = g.pick_ref(&pool).clone();
            if g.bool() || base.0.is_empty() {
                let c = base.child(&gen_label(g));
                if c.wire_len() <= 255 {
                    pool.push(c);
                    continue;
                }
            } else {
                pool.push(base.parent().unwrap());
                continue;
            }
        }
        pool.push(gen_name(g, long));
    }
    pool
}

pub fn pick_name(g: &mut Gen, pool: &[N]) -> N {
    let n = g.pick_ref(pool).clone();
    // vary the ASCII case now and then: names compare case-insensitively
    if g.chance(1, 8) {
        N(n.0.iter().map(|l| l.to_ascii_uppercase()).collect())
    } else {
        n
    }
}

pub fn gen_rtype(g: &mut Gen) -> u16 {
    match g.weighted(&[10, 2, 1]) {
        0 => g.pick(&KNOWN_TYPES),
        1 => g.pick(&[0u16, 17, 27, 29, 41, 99, 251, 252, 255, 256, 65280, 65535]),
        _ => g.u16(),
    }
}

pub fn gen_class(g: &mut Gen) -> u16 {
    match g.weighted(&[8, 2, 1]) {
        0 => 1,
        1 => g.pick(&[0u16, 2, 3, 4, 254, 255, 65535]),
        _ => g.u16(),
    }
}

pub fn gen_opaque(g: &mut Gen, max: usize) -> Vec<u8> {
    let n = match g.weighted(&[2, 4, 1]) {
        0 => 0,
        1 => g.range(1, max.max(1)),
        _ => max,
    };
    g.bytes(n)
}

pub fn gen_wdata(g: &mut Gen, rtype: u16, pool: &[N], max_opaque: usize) -> WData {
    match kind_of_type(rtype) {
        1 => {
            let b = g.bytes(4);
            WData::A([b[0], b[1], b[2], b[3]])
        }
        2 => {
            let b = g.bytes(16);
            let mut a = [0u8; 16];
            a.copy_from_slice(&b);
            WData::Aaaa(a)
        }
        3 => WData::Name(pick_name(g, pool)),
        4 => WData::Soa {
            mname: pick_name(g, pool),
            rname: pick_name(g, pool),
            serial: g.u32(),
            refresh: g.u32(),
            retry: g.u32(),
            expire: g.u32(),
            minimum: g.u32(),
        },
        5 => WData::Minfo(pick_name(g, pool), pick_name(g, pool)),
        6 => WData::Mx(g.u16(), pick_name(g, pool)),
        7 => WData::Srv(g.u16(), g.u16(), g.u16(), pick_name(g, pool)),
        _ => WData::Opaque(gen_opaque(g, max_opaque)),
    }
}

pub fn gen_rr(g: &mut Gen, pool: &[N], max_opaque: usize) -> WRR {
    let rtype = gen_rtype(g);
    WRR {
        name: pick_name(g, pool),
        rtype,
        rclass: gen_class(g),
        ttl: g.pick(&[0u32, 1, 300, 86400, 0x7fff_ffff, 0x8000_0000, u32::MAX]),
        data: gen_wdata(g, rtype, pool, max_opaque),
    }
}

pub fn gen_wmsg(g: &mut Gen, o: &MsgOpts) -> WMsg {
    let pool = gen_pool(g, o.long_names);
    let nq = g.weighted(&[2, 6, 1, 1]).min(o.max_questions);
    let questions = (0..nq)
        .map(|_| WQ {
            name: pick_name(g, &pool),
            qtype: gen_rtype(g),
            qclass: gen_class(g),
        })
        .collect();
    let mut sec = |g: &mut Gen| -> Vec<WRR> {
        let n = g.below(o.max_rrs + 1);
        (0..n).map(|_| gen_rr(g, &pool, o.max_opaque)).collect()
    };
    let answers = sec(g);
    let authority = sec(g);
    let additional = sec(g);
    let f = g.u16();
    WMsg {
        id: g.u16(),
        qr: f & 1 != 0,
        opcode: (f >> 1 & 15) as u8,
        aa: f >> 5 & 1 != 0,
        tc: f >> 6 & 1 != 0,
        rd: f >> 7 & 1 != 0,
        ra: f >> 8 & 1 != 0,
        rcode: (f >> 9 & 15) as u8,
        questions,
        answers,
        authority,
        additional,
    }
}

/// Compression choices read from a byte list: 0 = in-line, k>0 = pointer to
/// option (k-1) mod options.
pub struct ByteChooser<'a> {
    pub bytes: &'a [u8],
    pub pos: usize,
}

impl<'a> Chooser for ByteChooser<'a> {
    fn choose(&mut self, options: usize) -> Option<usize> {
        let b = self.bytes.get(self.pos).copied().unwrap_or(0);
        self.pos += 1;
        if b == 0 {
            None
        } else {
            Some((b as usize - 1) % options)
        }
    }
}

/// Lower-cases names so that a generated message equals its decoding.
pub fn canonical(m: &WMsg) -> WMsg {
    let mut m = m.clone();
    let low = |n: &mut N| *n = n.lower();
    for q in &mut m.questions {
        low(&mut q.name);
    }
    for sec in [&mut m.answers, &mut m.authority, &mut m.additional] {
        for rr in sec.iter_mut() {
            low(&mut rr.name);
            match &mut rr.data {
                WData::Name(n) => low(n),
                WData::Soa { mname, rname, .. } => {
                    low(mname);
                    low(rname);
                }
                WData::Minfo(a, b) => {
                    low(a);
                    low(b);
                }
                WData::Mx(_, n) | WData::Srv(_, _, _, n) => low(n),
                _ => {}
            }
        }
    }
    m
}

// --------------------------------------------------------------------------
// adversarial constructions (C03)

use serde::{Deserialize, Serialize};

#[derive(Debug, Clone, PartialEq, Eq, Hash, Serialize, Deserialize)]
pub enum Construction {
    /// question name = pointer to itself
    SelfPointer,
    /// question name = pointer to a later offset
    ForwardPointer,
    /// k names pointing at each other in a cycle (k = 2, 3)
    Cycle(u8),
    /// name = label + pointer back to the label's own offset
    PointerIntoSameName,
    /// pointer into the 12-byte header, whose bytes spell a valid name or not
    PointerIntoHeader { valid_target: bool },
    /// label type bits 01 / 10
    ReservedLabel(u8),
    /// single label of `len` octets (63 ok, 64.. is a reserved type / pointer)
    LabelLen(u8),
    /// name of exactly `total` octets made of in-line labels
    NameLenInline(u16),
    /// name of exactly `total` octets reached through a pointer expansion
    NameLenPointer(u16),
    /// header counts far larger than the payload
    HugeCounts { section: u8 },
    /// RDLENGTH off by `delta` for a record of the given type
    RdLen { rtype: u16, delta: i8 },
    /// dense backward chain of `hops` 2-byte pointers inside opaque RDATA,
    /// then `names` question... names that start the chain
    Chain { hops: u16, names: u16 },
    /// trailing garbage after a valid message
    Trailing(u16),
    /// empty / one byte / header prefixes
    Prefix(u8),
    /// a message made of the smallest possible entries: `questions` questions
    /// about the root (5 octets each) and `records` records owned by the root
    /// with empty RDATA (11 octets each), spread over the three sections
    Minimal { questions: u8, records: u8 },
}

fn header(qd: u16, an: u16, ns: u16, ar: u16) -> Vec<u8> {
    let mut v = vec![0xbe, 0xef, 0x01, 0x00];
    for c in [qd, an, ns, ar] {
        v.extend_from_slice(&c.to_be_bytes());
    }
    v
}

impl Construction {
    pub fn all() -> Vec<Construction> {
        use Construction::*;
        let mut v = vec![
            SelfPointer,
            ForwardPointer,
            Cycle(2),
            Cycle(3),
            PointerIntoSameName,
            PointerIntoHeader { valid_target: true },
            PointerIntoHeader { valid_target: false },
            ReservedLabel(0x40),
            ReservedLabel(0x80),
            ReservedLabel(0x7f),
            ReservedLabel(0xbf),
        ];
        for l in [0u8, 1, 62, 63, 64, 65, 191, 192, 255] {
            v.push(LabelLen(l));
        }
        for t in 250u16..=260 {
            v.push(NameLenInline(t));
            v.push(NameLenPointer(t));
        }
        for s in 0..4u8 {
            v.push(HugeCounts { section: s });
        }
        for t in KNOWN_TYPES.iter().copied().chain([99u16, 65535]) {
            for d in [-2i8, -1, 1, 2] {
                v.push(RdLen { rtype: t, delta: d });
            }
        }
        for hops in [0u16, 1, 2, 100, 1000, 4000, 8000, 8179, 8180] {
            v.push(Chain { hops, names: 1 });
        }
        // 16.4 KB of chain + 3000 x 16 octets: just under the 65,535-octet TCP maximum
        v.push(Chain { hops: 8180, names: 3000 });
        for n in [1u16, 2, 500, 40000] {
            v.push(Trailing(n));
        }
        for n in 0..=12u8 {
            v.push(Prefix(n));
        }
        for questions in 0..=2u8 {
            for records in [0u8, 1, 2, 3, 7, 40] {
                v.push(Minimal { questions, records });
            }
        }
        v
    }

    pub fn is_heavy(&self) -> bool {
        matches!(self, Construction::Chain { names, .. } if *names > 100)
    }

    pub fn bytes(&self) -> Vec<u8> {
        use Construction::*;
        match self {
            SelfPointer => {
                let mut v = header(1, 0, 0, 0);
                v.extend_from_slice(&[0xc0, 12, 0, 1, 0, 1]);
                v
            }
            ForwardPointer => {
                let mut v = header(2, 0, 0, 0);
                // q1 name -> pointer to q2's name (offset 18), q2 = "a."
                v.extend_from_slice(&[0xc0, 18, 0, 1, 0, 1]);
                v.extend_from_slice(&[1, b'a', 0, 0, 1, 0, 1]);
                v
            }
            Cycle(k) => {
                let k = *k as usize;
                let mut v = header(k as u16, 0, 0, 0);
                // question i at 12 + 6*i points at question (i+1) % k
                for i in 0..k {
                    let target = 12 + 6 * ((i + 1) % k);
                    v.extend_from_slice(&[0xc0, target as u8, 0, 1, 0, 1]);
                }
                v
            }
            PointerIntoSameName => {
                let mut v = header(1, 0, 0, 0);
                v.extend_from_slice(&[1, b'a', 0xc0, 12, 0, 1, 0, 1]);
                v
            }
            PointerIntoHeader { valid_target } => {
                // header bytes 4..: QDCOUNT = 0x0001 -> at offset 4: 0x00 = root name
                let mut v = header(1, 0, 0, 0);
                let target = if *valid_target { 4 } else { 0 };
                v.extend_from_slice(&[0xc0, target, 0, 1, 0, 1]);
                v
            }
            ReservedLabel(b) => {
                let mut v = header(1, 0, 0, 0);
                v.push(*b);
                v.extend_from_slice(&vec![b'a'; (*b & 63) as usize]);
                v.extend_from_slice(&[0, 0, 1, 0, 1]);
                v
            }
            LabelLen(l) => {
                let mut v = header(1, 0, 0, 0);
                v.push(*l);
                v.extend_from_slice(&vec![b'a'; *l as usize]);
                v.extend_from_slice(&[0, 0, 1, 0, 1]);
                v
            }
            NameLenInline(total) => {
                let mut v = header(1, 0, 0, 0);
                v.extend_from_slice(&name_of_len(*total as usize));
                v.extend_from_slice(&[0, 1, 0, 1]);
                v
            }
            NameLenPointer(total) => {
                // q1 = name of 200 octets; q2 = labels + pointer to q1 so that
                // the expansion has `total` octets
                let mut v = header(2, 0, 0, 0);
                v.extend_from_slice(&name_of_len(200));
                v.extend_from_slice(&[0, 1, 0, 1]);
                let extra = *total as usize - 200; // >= 50
                // labels summing (with length octets) to `extra`
                let mut rest = extra;
                while rest > 0 {
                    let l = (rest - 1).min(63);
                    if l == 0 {
                        // cannot have a zero label: steal from the previous one
                        break;
                    }
                    v.push(l as u8);
                    v.extend_from_slice(&vec![b'p'; l]);
                    rest -= l + 1;
                }
                v.extend_from_slice(&[0xc0, 12, 0, 1, 0, 1]);
                v
            }
            HugeCounts { section } => {
                let mut c = [0u16; 4];
                c[*section as usize] = 0xffff;
                let mut v = header(c[0], c[1], c[2], c[3]);
                if *section == 0 {
                    v.extend_from_slice(&[1, b'a', 0, 0, 1, 0, 1]);
                } else {
                    v.extend_from_slice(&[1, b'a', 0, 0, 1, 0, 1, 0, 0, 0, 60, 0, 4, 1, 2, 3, 4]);
                }
                v
            }
            RdLen { rtype, delta } => {
                let rr = WRR {
                    name: N::parse("a.example."),
                    rtype: *rtype,
                    rclass: 1,
                    ttl: 60,
                    data: sample_data(*rtype),
                };
                let m = WMsg {
                    id: 0x1234,
                    qr: true,
                    opcode: 0,
                    aa: false,
                    tc: false,
                    rd: false,
                    ra: false,
                    rcode: 0,
                    questions: vec![],
                    answers: vec![rr.clone(), rr],
                    authority: vec![],
                    additional: vec![],
                };
                let mut v = encode_plain(&m);
                // the first RR starts at 12: name(11) type class ttl = 21 bytes, then RDLENGTH
                let p = 12 + N::parse("a.example.").wire_len() + 8;
                let cur = u16::from_be_bytes([v[p], v[p + 1]]) as i32;
                let new = (cur + *delta as i32).max(0) as u16;
                v[p] = (new >> 8) as u8;
                v[p + 1] = new as u8;
                v
            }
            Chain { hops, names } => {
                let hops = *hops as usize;
                // one answer RR of type NULL whose RDATA holds the chain
                let rdlen = 1 + 2 * hops;
                // pointers may only go backwards, so the chain comes first (in
                // the single answer record) and the names which use it are the
                // owners of the authority records after it
                let mut v = header(0, 1, *names, 0);
                v.extend_from_slice(&[0]); // owner: root
                v.extend_from_slice(&10u16.to_be_bytes()); // NULL
                v.extend_from_slice(&1u16.to_be_bytes());
                v.extend_from_slice(&0u32.to_be_bytes());
                v.extend_from_slice(&(rdlen as u16).to_be_bytes());
                let base = v.len();
                v.push(0); // p0: root
                let mut prev = base;
                for _ in 0..hops {
                    let here = v.len();
                    v.push(0xc0 | (prev >> 8) as u8);
                    v.push(prev as u8);
                    prev = here;
                }
                debug_assert!(prev < 0x4000);
                for _ in 0..*names {
                    v.push(0xc0 | (prev >> 8) as u8);
                    v.push(prev as u8);
                    v.extend_from_slice(&1u16.to_be_bytes()); // A
                    v.extend_from_slice(&1u16.to_be_bytes());
                    v.extend_from_slice(&0u32.to_be_bytes());
                    v.extend_from_slice(&4u16.to_be_bytes());
                    v.extend_from_slice(&[1, 2, 3, 4]);
                }
                v
            }
            Trailing(n) => {
                let mut v = header(1, 0, 0, 0);
                v.extend_from_slice(&[1, b'a', 0, 0, 1, 0, 1]);
                v.extend((0..*n).map(|i| (i * 7 + 3) as u8));
                v
            }
            Prefix(n) => {
                let mut v = header(1, 0, 0, 0);
                v.truncate(*n as usize);
                v
            }
            Minimal { questions, records } => {
                let r = u16::from(*records);
                let (an, ns) = (r / 3, r / 3);
                let mut v = header(u16::from(*questions), an, ns, r - an - ns);
                for _ in 0..*questions {
                    v.extend_from_slice(&[0, 0, 2, 0, 1]); // . NS IN
                }
                for i in 0..r {
                    // . <NULL | OPT-like unknown type> IN ttl 0 rdlength 0
                    let t: u16 = if i % 2 == 0 { 10 } else { 41 };
                    v.push(0);
                    v.extend_from_slice(&t.to_be_bytes());
                    v.extend_from_slice(&[0, 1, 0, 0, 0, 0, 0, 0]);
                }
                v
            }
        }
    }
}

/// In-line encoding of a name with exactly `total` octets (incl. root).
pub fn name_of_len(total: usize) -> Vec<u8> {
    let mut v = Vec::new();
    let mut rest = total - 1;
    while rest > 0 {
        let mut l = (rest - 1).min(63);
        // avoid leaving exactly 1 octet (a label needs >= 2 octets)
        if rest - (l + 1) == 1 {
            l -= 1;
        }
        v.push(l as u8);
        v.extend_from_slice(&vec![b'n'; l]);
        rest -= l + 1;
    }
    v.push(0);
    v
}

pub fn sample_data(rtype: u16) -> WData {
    let n = N::parse("t.example.");
    match kind_of_type(rtype) {
        1 => WData::A([1, 2, 3, 4]),
        2 => WData::Aaaa([9; 16]),
        3 => WData::Name(n),
        4 => WData::Soa {
            mname: n.clone(),
            rname: n,
            serial: 1,
            refresh: 2,
            retry: 3,
            expire: 4,
            minimum: 5,
        },
        5 => WData::Minfo(n.clone(), n),
        6 => WData::Mx(10, n),
        7 => WData::Srv(1, 2, 3, n),
        _ => WData::Opaque(vec![5, 6, 7, 8, 9]),
    }
}

//! Writes the committed seed corpora for the fuzz targets (`vcheck gen-seeds`).

use std::path::Path;

use crate::gen::{splitmix64, Gen};
use crate::rwire;
use crate::wiregen::*;
use crate::ztext::{render, RenderOpts};

fn tape(seed: u64, n: usize) -> Vec<u32> {
    let mut x = seed;
    (0..n)
        .map(|_| {
            x = splitmix64(x);
            (x >> 16) as u32
        })
        .collect()
}

pub fn write_seeds(root: &Path) -> std::io::Result<()> {
    let w = |target: &str, name: String, data: &[u8]| -> std::io::Result<()> {
        let d = root.join(target);
        std::fs::create_dir_all(&d)?;
        std::fs::write(d.join(name), data)
    };
    for (i, c) in Construction::all().iter().enumerate() {
        let b = c.bytes();
        if b.len() <= 20_000 {
            w("wire_diff", format!("construction-{i:03}"), &b)?;
        }
    }
    for i in 0..60u64 {
        let t = tape(1000 + i, 400);
        let mut g = Gen::new(&t);
        let m = gen_wmsg(&mut g, &MsgOpts::small());
        let comp = g.bytes(24);
        let enc = rwire::encode_with(&m, &mut ByteChooser { bytes: &comp, pos: 0 });
        w("wire_diff", format!("message-{i:03}"), &enc.out)?;
    }
    for i in 0..60u64 {
        let t = tape(2000 + i, 900);
        let mut g = Gen::new(&t);
        let zone = crate::props::c11::gen_denotation(&mut g, i % 2 == 0);
        let (text, _) = render(&mut g, &zone, &RenderOpts { layout_noise: true, inheritance: true, origin_changes: true });
        w("zone_total", format!("zone-{i:03}"), text.as_bytes())?;
        w("zone_roundtrip", format!("zone-{i:03}"), text.as_bytes())?;
    }
    for i in 0..40u64 {
        let t = tape(3000 + i, 400);
        let mut g = Gen::new(&t);
        let c = crate::props::c14::gen_case(&mut g);
        w("hosts_roundtrip", format!("hosts-{i:03}"), c.text().as_bytes())?;
        w("zone_total", format!("hosts-{i:03}"), c.text().as_bytes())?;
    }
    Ok(())
}

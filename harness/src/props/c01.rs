//! C01 — local zone and hosts data always win over cache and upstream.

use std::collections::BTreeSet;
use std::net::SocketAddr;

use dns_resolver::cache::{verif as clock, SharedCache};
use dns_resolver::util::types::{ProtocolMode, ResolutionError, ResolvedRecord};
use dns_types::hosts::types::Hosts;
use dns_types::protocol::types::*;
use dns_types::zones::types::{Zone, Zones};
use serde::{Deserialize, Serialize};

use super::c07::to_question;
use crate::engine::{Outcome, Prop, PropertyDef, Tier};
use crate::gen::Gen;
use crate::mock::*;
use crate::rwire::{rr_from_impl, rr_to_impl, WData, WMsg, WQ, WRR};
use crate::rzone::*;
use crate::util::N;

#[derive(Debug, Clone, PartialEq, Eq, Hash, Serialize, Deserialize)]
pub struct LocalZone {
    pub model: ZoneModel,
    /// built by parsing rendered text (true) or through the insertion API
    pub via_text: bool,
}

#[derive(Debug, Clone, PartialEq, Eq, Hash, Serialize, Deserialize)]
pub struct Case {
    pub zones: Vec<LocalZone>,
    /// hosts entries merged into the non-authoritative root zone
    pub hosts: Vec<(N, bool, u8)>,
    /// cache pre-content: (name, type, tag)
    pub cache: Vec<(N, u16, u8)>,
    pub questions: Vec<WQ>,
    /// 0 authoritative-only, 1 recursive, 2 forwarding
    pub mode: u8,
    /// recursive mode: the root refers to a second lying server (referral,
    /// then answer) instead of answering itself
    #[serde(default)]
    pub referral_first: bool,
    /// cached CNAMEs at names outside every authoritative zone pointing at a
    /// name inside one: (alias, target, tag)
    #[serde(default)]
    pub cache_aliases: Vec<(N, N, u8)>,
}

const CACHE_TTL_BASE: u32 = 7_000;
const UPSTREAM_TTL: u32 = 9_000;

fn tagged(name: &N, rtype: u16, tag: u8, upstream: bool) -> WRR {
    let (a, ttl) = if upstream { (198u8, UPSTREAM_TTL) } else { (203u8, CACHE_TTL_BASE + u32::from(tag)) };
    let data = match rtype {
        T_A => WData::A([a, 18, 0, tag]),
        T_AAAA => {
            let mut x = [0u8; 16];
            x[0] = 0x20;
            x[1] = a;
            x[15] = tag;
            WData::Aaaa(x)
        }
        T_NS => WData::Name(N::parse(if upstream { "ns.liar.upstream." } else { "ns.poison.cache." })),
        T_CNAME => WData::Name(N::parse(if upstream { "target.liar.upstream." } else { "target.poison.cache." })),
        T_MX => WData::Mx(u16::from(tag), N::parse(if upstream { "mx.liar.upstream." } else { "mx.poison.cache." })),
        T_SOA => WData::Soa { mname: N::parse("liar."), rname: N::parse("liar."), serial: u32::from(tag), refresh: 1, retry: 1, expire: 1, minimum: 1 },
        _ => WData::Opaque(format!("{}-{tag}", if upstream { "upstream" } else { "cache" }).into_bytes()),
    };
    let rtype = if [T_A, T_AAAA, T_NS, T_CNAME, T_MX, T_SOA, T_TXT].contains(&rtype) { rtype } else { T_TXT };
    WRR { name: name.clone(), rtype, rclass: 1, ttl, data }
}

fn is_foreign(w: &WRR) -> Option<&'static str> {
    if w.ttl == UPSTREAM_TTL {
        return Some("upstream");
    }
    if (CACHE_TTL_BASE..CACHE_TTL_BASE + 256).contains(&w.ttl) {
        return Some("cache");
    }
    None
}

pub struct LocalWins;

/// The configured zones: most specific enclosing zone of a name.
fn zone_of<'a>(zones: &'a [ZoneModel], name: &N) -> Option<&'a ZoneModel> {
    zones.iter().filter(|z| name.is_at_or_below(&z.apex)).max_by_key(|z| z.apex.depth())
}

/// Is `name` at or below a delegation point (non-apex NS owner) of `z`?
fn below_cut(z: &ZoneModel, name: &N) -> bool {
    z.recs.iter().any(|r| !r.wild && r.rtype == T_NS && r.owner.lower() != z.apex.lower() && name.is_at_or_below(&r.owner.lower()))
}

impl Prop for LocalWins {
    type Case = Case;
    fn name(&self) -> &'static str {
        "local-wins"
    }
    fn tape_len(&self) -> usize {
        900
    }
    fn cases(&self, tier: Tier) -> u64 {
        tier.pick(80_000, 12_000_000)
    }
    fn generate(&self, g: &mut Gen) -> Case {
        // apexes: nested authoritative zones, the root zone (non-authoritative), sometimes a non-root non-authoritative zone
        let mut zones: Vec<LocalZone> = Vec::new();
        let mut used: BTreeSet<N> = BTreeSet::new();
        let pool = [N::parse("example."), N::parse("a.example."), N::parse("b.a.example."), N::parse("example.com."), N::parse("com.")];
        let nz = g.range(1, 4);
        for _ in 0..nz {
            let apex = g.pick(&pool);
            if !used.insert(apex.clone()) {
                continue;
            }
            let authoritative = !g.chance(1, 8);
            let soa = if authoritative { Some(gen_soa(g, &apex)) } else { None };
            let mut model = gen_zone(g, apex.clone(), soa, &ZoneGenOpts { max_recs: 8, allow_wild: true, enforce_scope: true });
            // blocklist style entries
            if g.chance(1, 4) {
                model.recs.push(ZRec { owner: apex.child(b"ads"), wild: false, rtype: T_A, data: WData::A([0, 0, 0, 0]), ttl: 300 });
                model.recs.push(ZRec { owner: apex.child(b"ads"), wild: false, rtype: T_AAAA, data: WData::Aaaa([0; 16]), ttl: 300 });
            }
            enforce_d1(&mut model);
            // non-authoritative non-root zones exist only through the API
            zones.push(LocalZone { model, via_text: authoritative && g.chance(2, 3) });
        }
        // the non-authoritative root zone: hints (+ records)
        let mut root = gen_zone(g, N::root(), None, &ZoneGenOpts { max_recs: 5, allow_wild: false, enforce_scope: true });
        root.recs.retain(|r| !(r.rtype == T_NS && r.owner.0.is_empty()) && r.owner != N::parse("a.rs."));
        root.recs.push(ZRec { owner: N::root(), wild: false, rtype: T_NS, data: WData::Name(N::parse("a.rs.")), ttl: 300 });
        root.recs.push(ZRec { owner: N::parse("a.rs."), wild: false, rtype: T_A, data: WData::A([10, 0, 0, 1]), ttl: 300 });
        enforce_d1(&mut root);
        zones.push(LocalZone { model: root, via_text: g.bool() });
        let hosts: Vec<(N, bool, u8)> = g.vec(0, 3, |g| (g.pick(&[N::parse("printer.lan."), N::parse("b.example."), N::parse("blocked.net."), N::parse("x.com.")]), g.bool(), g.below(4) as u8));

        // names worth asking / poisoning
        let mut names: BTreeSet<N> = BTreeSet::new();
        for z in &zones {
            for n in interesting_names(&z.model) {
                if n.depth() <= z.model.apex.depth() + 2 {
                    names.insert(n);
                }
            }
        }
        for h in &hosts {
            names.insert(h.0.clone());
        }
        let names: Vec<N> = names.into_iter().collect();
        let owners: Vec<(N, u16)> = zones.iter().flat_map(|z| z.model.recs.iter().map(|r| (r.owner.clone(), r.rtype))).collect();
        let cache = g.vec(0, 12, |g| {
            if !owners.is_empty() && g.chance(1, 2) {
                let (n, t) = g.pick(&owners);
                (n, if g.chance(2, 3) { t } else { T_CNAME }, g.u8())
            } else {
                (g.pick(&names), g.pick(&[T_A, T_AAAA, T_CNAME, T_NS, T_TXT, T_MX]), g.u8())
            }
        });
        // cached aliases from outside into the authoritative zones (at owned
        // names, which the cache entries above poison, and at names the zone
        // does not define)
        let auth_owners: Vec<N> = zones
            .iter()
            .filter(|z| z.model.soa.is_some())
            .flat_map(|z| z.model.recs.iter().filter(|r| !r.wild).map(|r| r.owner.clone()).chain(std::iter::once(z.model.apex.child(b"undefined"))).collect::<Vec<_>>())
            .collect();
        let cache_aliases: Vec<(N, N, u8)> = if !auth_owners.is_empty() && g.chance(1, 3) {
            g.vec(1, 3, |g| (g.pick(&[N::parse("alias.outside."), N::parse("ext.lan."), N::parse("www.other.net.")]), g.pick(&auth_owners), g.u8()))
        } else {
            vec![]
        };
        let questions = g.vec(1, 8, |g| {
            let name = if !cache_aliases.is_empty() && g.chance(1, 3) {
                g.pick(&cache_aliases).0
            } else if !owners.is_empty() && g.chance(1, 2) {
                g.pick(&owners).0
            } else {
                g.pick(&names)
            };
            WQ { name, qtype: g.pick(&[T_A, T_A, T_AAAA, T_NS, T_CNAME, T_MX, T_TXT, T_SOA, Q_ANY, Q_AXFR]), qclass: 1 }
        });
        Case { zones, hosts, cache, questions, mode: g.below(3) as u8, referral_first: g.bool(), cache_aliases }
    }

    fn check(&self, c: &Case) -> Outcome {
        clock::set_virtual_nanos(Some(1_000_000_000));
        // --- build the configuration, and the models of what each zone holds
        let mut models: Vec<ZoneModel> = c.zones.iter().map(|z| z.model.clone()).collect();
        // hosts entries are one more non-authoritative root zone
        for (n, v6, k) in &c.hosts {
            let root = models.iter_mut().find(|m| m.apex.0.is_empty()).unwrap();
            let (t, d) = if *v6 { (T_AAAA, WData::Aaaa({ let mut a = [0u8; 16]; a[15] = *k; a })) } else { (T_A, WData::A([0, 0, 0, *k])) };
            // a later hosts entry for the same name and family replaces the earlier one
            root.recs.retain(|r| !(r.owner == *n && r.rtype == t && r.ttl == 5));
            root.recs.push(ZRec { owner: n.clone(), wild: false, rtype: t, data: d, ttl: 5 });
        }
        let mut zones = Zones::new();
        for (lz, model) in c.zones.iter().zip(models.iter()) {
            let z = if lz.via_text {
                match Zone::deserialise(&render_plain(&lz.model)) {
                    Ok(z) => z,
                    Err(e) => return Outcome::pass(false).fail("valid-text-rejected", format!("{e:?}")),
                }
            } else {
                lz.model.to_impl()
            };
            let _ = model;
            zones.insert_merge(z);
        }
        let mut hosts = Hosts::default();
        for (n, v6, k) in &c.hosts {
            if *v6 {
                let mut a = [0u8; 16];
                a[15] = *k;
                hosts.v6.insert(n.dom(), std::net::Ipv6Addr::from(a));
            } else {
                hosts.v4.insert(n.dom(), std::net::Ipv4Addr::new(0, 0, 0, *k));
            }
        }
        zones.insert_merge(hosts.into());
        // D1 must still hold after the hosts merge, or the root zone is outside the claim
        {
            let root = models.iter_mut().find(|m| m.apex.0.is_empty()).unwrap();
            let before = root.recs.len();
            let mut probe = root.clone();
            enforce_d1(&mut probe);
            if probe.recs.len() != before {
                return Outcome::pass(false).class("root-zone-outside-D1");
            }
        }

        let cache = SharedCache::new();
        let mut poisoned: Vec<WRR> = Vec::new();
        for (n, t, tag) in &c.cache {
            let w = tagged(n, *t, *tag, false);
            if let Some(rr) = rr_to_impl(&w) {
                cache.insert(&rr);
                poisoned.push(w);
            }
        }
        let mut alias_of: Vec<(N, N)> = Vec::new();
        for (alias, target, tag) in &c.cache_aliases {
            // one alias per name (a second CNAME for the same owner would be a different matter)
            if alias_of.iter().any(|(a, _)| a == alias) || zone_of(&models, alias).map_or(false, |z| z.soa.is_some()) {
                continue;
            }
            let w = WRR { name: alias.clone(), rtype: T_CNAME, rclass: 1, ttl: CACHE_TTL_BASE + u32::from(*tag), data: WData::Name(target.clone()) };
            if let Some(rr) = rr_to_impl(&w) {
                cache.insert(&rr);
                poisoned.push(w);
                alias_of.push((alias.lower(), target.lower()));
            }
        }
        // --- the liar upstream
        let forwarding = c.mode == 2;
        let referral_first = c.referral_first && c.mode == 1;
        let mock = Mock::new(Box::new(move |ctx: &Ctx| {
            let Some(req) = ctx.request else { return Action::Silence };
            let Some(q) = req.questions.first() else { return Action::Silence };
            // two-step upstream: the root (10.0.0.1) refers everything below a
            // top-level label to "ns.liar.<tld>" at 10.0.0.2, which then lies
            let qn = q.name.lower();
            if referral_first && ctx.dest.ip() == std::net::IpAddr::from([10, 0, 0, 1]) && qn.depth() >= 2 {
                let tld = N(vec![qn.0[qn.depth() - 1].clone()]);
                let host = tld.child(b"liar").child(b"ns");
                if qn != host {
                    let m = WMsg {
                        id: 0, qr: true, opcode: 0, aa: false, tc: false, rd: req.rd, ra: false, rcode: 0,
                        questions: vec![q.clone()],
                        answers: vec![],
                        authority: vec![WRR { name: tld, rtype: T_NS, rclass: 1, ttl: UPSTREAM_TTL, data: WData::Name(host.clone()) }],
                        additional: vec![WRR { name: host, rtype: T_A, rclass: 1, ttl: UPSTREAM_TTL, data: WData::A([10, 0, 0, 2]) }],
                    };
                    return Action::Reply { bytes: wire_reply(m, req, ctx.tcp), delay_ms: 10, label: "liar-referral".into() };
                }
            }
            let m = WMsg {
                id: 0, qr: true, opcode: 0, aa: !forwarding, tc: false, rd: req.rd, ra: forwarding, rcode: 0,
                questions: vec![q.clone()],
                answers: vec![tagged(&q.name.lower(), if q.qtype == Q_ANY { T_A } else { q.qtype }, 1, true)],
                authority: vec![],
                additional: vec![],
            };
            Action::Reply { bytes: wire_reply(m, req, ctx.tcp), delay_ms: 10, label: "liar".into() }
        }));
        let mode = match c.mode {
            0 => Mode::Local,
            1 => Mode::Recursive { protocol: ProtocolMode::OnlyV4, port: 53 },
            _ => Mode::Forwarding { address: "192.0.2.53:53".parse::<SocketAddr>().unwrap() },
        };
        let effs: Vec<Vec<ZRec>> = models.iter().map(|m| m.effective()).collect();
        let mut out = Outcome::pass(false).class(format!("mode:{}", c.mode));

        for q in &c.questions {
            mock.clear_log();
            let r = run_resolve(&mock, mode, &zones, &cache, &to_question(q));
            let log = mock.log();
            out.counts.push(("questions", 1));
            let res = match r.result {
                Err(p) => return out.fail("resolver-panic", p),
                Ok(r) => r,
            };
            let qn = q.name.lower();
            let zi = models.iter().enumerate().filter(|(_, z)| qn.is_at_or_below(&z.apex)).max_by_key(|(_, z)| z.apex.depth()).map(|x| x.0);
            let what = |d: String| format!("{d}\nquestion {} type {} in mode {}; result {res:?}; upstream exchanges: {}", q.name, q.qtype, c.mode, log.len());
            // collision bookkeeping for the non-triviality rule
            let collides = poisoned.iter().any(|p| p.name.lower() == qn);

            // rule 4: a name error only on the word of an authoritative zone
            if let Ok(ResolvedRecord::AuthoritativeNameError { .. }) = &res {
                let says_so = |n: &N| {
                    models.iter().enumerate().filter(|(_, z)| n.is_at_or_below(&z.apex)).max_by_key(|(_, z)| z.apex.depth()).map_or(false, |(i, z)| {
                        z.soa.is_some() && matches!(z.lookup_in(&effs[i], n, q.qtype), ZR::NameError | ZR::Alias(_))
                    })
                };
                // ... of the question name, or of the name a cached alias leads to
                let ok = says_so(&qn) || alias_of.iter().any(|(a, t)| *a == qn && says_so(t));
                if !ok {
                    return out.fail("name-error-without-authority", what("name error although no authoritative zone says so".into()));
                }
            }
            // rule 1: per record
            let rrs: Vec<WRR> = match &res {
                Ok(ResolvedRecord::Authoritative { rrs, .. }) | Ok(ResolvedRecord::NonAuthoritative { rrs, .. }) => rrs.iter().map(rr_from_impl).collect(),
                _ => vec![],
            };
            for w in &rrs {
                let owner = w.name.lower();
                let Some(oz) = models.iter().enumerate().filter(|(_, z)| owner.is_at_or_below(&z.apex)).max_by_key(|(_, z)| z.apex.depth()).map(|x| x.0) else { continue };
                if models[oz].soa.is_none() || below_cut(&models[oz], &owner) {
                    continue;
                }
                // everything the zone holds for that owner (stored there, or
                // synthesised from the covering wildcard): an ANY lookup
                let derivable = match models[oz].lookup_in(&effs[oz], &owner, Q_ANY) {
                    ZR::Answer(rows) | ZR::Referral(rows) => rows.iter().any(|r| r.1 == w.rtype && r.2 == w.data && r.3 == w.ttl),
                    ZR::Alias(r) => r.1 == w.rtype && r.2 == w.data && r.3 == w.ttl,
                    ZR::NameError => false,
                };
                if !derivable {
                    let sig = match is_foreign(w) {
                        Some("cache") => "cache-record-for-owned-name",
                        Some(_) => "upstream-record-for-owned-name",
                        None => "record-not-from-owning-zone",
                    };
                    return out.fail(sig, what(format!("{w:?} is owned by the authoritative zone {} but that zone does not hold it", models[oz].apex)));
                }
            }
            // rules 2 and 3: the whole result for the question name
            if let Some(i) = zi {
                let z = &models[i];
                let want = z.lookup_in(&effs[i], &qn, q.qtype);
                let want_rows: Vec<RRow> = match &want {
                    ZR::Answer(r) => r.clone(),
                    _ => vec![],
                };
                let got_rows: Vec<RRow> = rrs.iter().map(|w| (w.name.lower(), w.rtype, w.data.clone(), w.ttl)).collect();
                let sorted = |mut v: Vec<RRow>| { v.sort(); v };
                if z.soa.is_some() {
                    out.classes.push("qname-in-authoritative-zone".into());
                    match &want {
                        ZR::Answer(_) => {
                            out.nontrivial |= collides;
                            match &res {
                                Ok(ResolvedRecord::Authoritative { soa_rr, .. }) => {
                                    if sorted(got_rows.clone()) != sorted(want_rows.clone()) {
                                        return out.fail("authoritative-answer-differs", what(format!("zone {} holds {want_rows:?}", z.apex)));
                                    }
                                    let s = rr_from_impl(soa_rr);
                                    if s.name.lower() != z.apex.lower() || Some(&s.data) != z.soa.as_ref().map(|x| x.data()).as_ref() {
                                        return out.fail("wrong-soa", what(format!("SOA {s:?} is not that of zone {}", z.apex)));
                                    }
                                }
                                other => return out.fail("not-answered-authoritatively", what(format!("zone {} answers this itself ({} records), got {other:?}", z.apex, want_rows.len()))),
                            }
                            if !log.is_empty() {
                                return out.fail("upstream-contacted-for-local-answer", what("an upstream server was asked".into()));
                            }
                        }
                        ZR::NameError => {
                            out.nontrivial |= collides;
                            match &res {
                                Ok(ResolvedRecord::AuthoritativeNameError { soa_rr }) => {
                                    let s = rr_from_impl(soa_rr);
                                    if s.name.lower() != z.apex.lower() {
                                        return out.fail("wrong-soa", what(format!("SOA {s:?}")));
                                    }
                                }
                                other => return out.fail("missing-name-not-a-name-error", what(format!("zone {} does not define the name, got {other:?}", z.apex))),
                            }
                            if !log.is_empty() {
                                return out.fail("upstream-contacted-for-local-answer", what("an upstream server was asked".into()));
                            }
                        }
                        ZR::Alias(c0) => {
                            // an answer starts with the zone's CNAME (an error is
                            // possible: alias loops, unreachable targets)
                            if res.is_ok() {
                                match got_rows.first() {
                                    Some(f) if (f.1, &f.2, f.3) == (c0.1, &c0.2, c0.3) && f.0 == qn => {}
                                    _ => return out.fail("alias-not-first", what(format!("zone {} aliases the name with {c0:?}", z.apex))),
                                }
                            }
                            // "the reply is marked authoritative": an alias chain that
                            // stays within authoritative zones and ends there - in
                            // data, an empty answer or a name error - is answered on
                            // the zones' word alone
                            {
                                let mut cur = match &c0.2 {
                                    WData::Name(t) => Some(t.lower()),
                                    _ => None,
                                };
                                let mut ends_authoritatively = false;
                                for _ in 0..8 {
                                    let Some(t) = cur.take() else { break };
                                    let Some((ti, tz)) = models.iter().enumerate().filter(|(_, m)| t.is_at_or_below(&m.apex)).max_by_key(|(_, m)| m.apex.depth()) else { break };
                                    if tz.soa.is_none() {
                                        break;
                                    }
                                    match tz.lookup_in(&effs[ti], &t, q.qtype) {
                                        ZR::Answer(_) | ZR::NameError => {
                                            ends_authoritatively = true;
                                            break;
                                        }
                                        ZR::Alias(next) => {
                                            if let WData::Name(n) = &next.2 {
                                                cur = Some(n.lower());
                                            }
                                        }
                                        ZR::Referral(_) => break,
                                    }
                                }
                                if ends_authoritatively {
                                    out.classes.push("alias-chain-within-authoritative-zones".into());
                                    if let Ok(ResolvedRecord::NonAuthoritative { .. }) = &res {
                                        return out.fail("alias-chain-not-marked-authoritative", what(format!("the alias chain from {qn} stays within authoritative zones and ends there")));
                                    }
                                }
                            }
                            out.classes.push("alias-in-authoritative-zone".into());
                            out.nontrivial |= collides;
                        }
                        ZR::Referral(_) => out.classes.push("beneath-delegation".into()),
                    }
                } else if q.qtype != Q_ANY {
                    if let ZR::Answer(rows) = &want {
                        if !rows.is_empty() {
                            out.classes.push("non-authoritative-zone-answers".into());
                            out.nontrivial |= collides;
                            match &res {
                                Ok(ResolvedRecord::NonAuthoritative { .. }) | Ok(ResolvedRecord::Authoritative { .. }) => {
                                    if sorted(got_rows.clone()) != sorted(want_rows.clone()) {
                                        let foreign = rrs.iter().find_map(is_foreign).unwrap_or("other");
                                        return out.fail(format!("override-not-exact:{foreign}"), what(format!("the zone {} holds exactly {want_rows:?}", z.apex)));
                                    }
                                }
                                other => return out.fail("override-not-returned", what(format!("the zone holds {want_rows:?}, got {other:?}"))),
                            }
                            if !log.is_empty() {
                                return out.fail("upstream-contacted-for-local-answer", what("an upstream server was asked".into()));
                            }
                        }
                    }
                } else if let ZR::Answer(rows) = &want {
                    // ANY in a non-authoritative zone: zone records are all there, and nothing
                    // foreign shares a (name, type) with them
                    if !rows.is_empty() && res.is_ok() {
                        for r in rows {
                            if !got_rows.contains(r) {
                                return out.fail("override-record-missing-from-any", what(format!("{r:?}")));
                            }
                        }
                        for w in &rrs {
                            if is_foreign(w).is_some() && rows.iter().any(|r| r.0 == w.name.lower() && r.1 == w.rtype) {
                                return out.fail("foreign-record-next-to-override", what(format!("{w:?}")));
                            }
                        }
                        out.nontrivial |= collides;
                    }
                }
            }
            if let Err(ResolutionError::Timeout) = &res {
                return out.fail("timeout", what("resolution timed out against an answering upstream".into()));
            }
        }
        clock::set_virtual_nanos(None);
        out
    }
}

pub fn def() -> PropertyDef {
    PropertyDef {
        id: "C01",
        level: "exploration",
        rule: "A configuration of 1..4 local zones with nested apexes (example., a.example., b.a.example., example.com., com.; authoritative with SOA, 1 in 8 non-authoritative through the API), built by parsing text or through the API, holding wildcards, CNAMEs inside and across zones, delegations, apex NS and 0.0.0.0/:: blocklist entries, plus the non-authoritative root zone (hints + records) and 0..3 hosts entries; a cache pre-seeded with 0..12 tagged records biased to collide with zone owners and types (incl. poisoned CNAMEs); an upstream liar that answers every question with a tagged record of the asked name and type; 1..8 questions (types A, AAAA, NS, CNAME, MX, TXT, SOA, ANY, AXFR) over the zones' name closure, sharing the cache, in authoritative-only, recursive or forwarding mode. Oracle (R-ZONE says what a zone holds): every returned record owned by an authoritative zone (outside its delegations) is derivable from that zone; a question the most specific authoritative zone answers / denies gives Authoritative{exactly its records, its SOA} / AuthoritativeNameError{its SOA} with no upstream exchange; an alias starts with the zone's CNAME; a non-authoritative zone or hosts entry holding records of the asked name and type gives exactly those with no upstream exchange, for ANY they are all present and no tagged record shares a (name,type) with them; AuthoritativeNameError only if an authoritative zone says so. Non-trivial = local data decides the question and a cache record for the question name exists. Distinct by hash of the case.",
        assumptions: vec!["zones holding records beneath a delegation point are not generated (D1); wildcard NS not generated (D2)"],
        parts: vec![Box::new(LocalWins)],
        budget_s: |t| t.pick(900, 10_800),
        needs_repo_bins: false,
    }
}

//! C09 — the server answers every message correctly framed and never goes
//! down.  Talks to the shipped `resolved` binary (guard off) over loopback.

use std::collections::{BTreeMap, BTreeSet};
use std::net::{SocketAddr, TcpListener, UdpSocket};
use std::sync::{Arc, Mutex, OnceLock};
use std::time::{Duration, Instant};

use dns_resolver::cache::SharedCache;
use dns_resolver::util::types::{ProtocolMode, ResolvedRecord};
use dns_types::zones::types::Zones;
use serde::{Deserialize, Serialize};

use crate::engine::{Outcome, Prop, PropertyDef, Tier};
use crate::gen::Gen;
use crate::rwire::{self, rr_from_impl, WData, WMsg, WQ, WRR};
use crate::rzone::*;
use crate::server::*;
use crate::util::{hex, N};
use crate::wiregen::{self, Construction};

#[derive(Debug, Clone, PartialEq, Eq, Hash, Serialize, Deserialize)]
pub enum Via {
    Udp,
    Tcp(TcpStyle),
}

#[derive(Debug, Clone, PartialEq, Eq, Hash, Serialize, Deserialize)]
pub struct Msg {
    pub via: Via,
    #[serde(with = "crate::util::hexbytes")]
    pub bytes: Vec<u8>,
}

#[derive(Debug, Clone, PartialEq, Eq, Hash, Serialize, Deserialize)]
pub struct Batch {
    pub msgs: Vec<Msg>,
    /// a TCP client that has connected and sent one octet of a length prefix
    /// stays connected, silent, for the whole batch
    #[serde(default)]
    pub idle_tcp_client: bool,
}

// --------------------------------------------------------------------------
// fixed configuration of the server under test

const ZONE_TEST: &str = "$ORIGIN test.\n@ IN SOA ns.test. admin.test. 1 3600 600 86400 60\n@ 300 IN NS ns\nns 300 IN A 192.0.2.53\nsentinel 300 IN TXT \"sentinel\"\nwww 300 IN A 192.0.2.1\nwww 300 IN A 192.0.2.2\nwww 300 IN AAAA 2001:db8::1\nalias 300 IN CNAME www\nalias2 300 IN CNAME alias\nout 300 IN CNAME www.other.invalid.\nloop1 300 IN CNAME loop2\nloop2 300 IN CNAME loop1\n*.wild 300 IN A 192.0.2.9\n*.wcn 300 IN CNAME www\nent.deep.down 300 IN TXT \"below empty non-terminals\"\nsub 300 IN NS ns.sub\nmail 300 IN MX 10 www\nsrv 300 IN SRV 1 2 3 www\n";

fn zone_files() -> Vec<(String, String)> {
    let mut big = String::from("$ORIGIN big.test.\n@ IN SOA ns.test. admin.test. 1 3600 600 86400 60\n");
    for i in 0..12 {
        big.push_str(&format!("medium 300 IN TXT \"{}-{i}\"\n", "m".repeat(60)));
    }
    for i in 0..60 {
        big.push_str(&format!("large 300 IN TXT \"{}-{i}\"\n", "l".repeat(200)));
    }
    for i in 0..300 {
        big.push_str(&format!("huge 300 IN TXT \"{}-{i}\"\n", "h".repeat(240)));
    }
    let plain = "a.plain. 300 IN A 192.0.2.77\nb.plain. 300 IN CNAME a.plain.\n*.plain. 300 IN TXT \"wild\"\n".to_string();
    vec![("test.zone".into(), ZONE_TEST.to_string()), ("big.zone".into(), big), ("plain.zone".into(), plain)]
}

const HOSTS: &str = "0.0.0.0 blocked.example\n:: blocked.example\n10.9.8.7 printer.lan\n";

pub const QUESTION_NAMES: [&str; 28] = [
    "test.", "www.test.", "alias.test.", "alias2.test.", "out.test.", "loop1.test.", "x.wild.test.", "a.b.wild.test.", "wild.test.", "x.wcn.test.", "a.b.wcn.test.", "deep.down.test.",
    "down.test.", "sub.test.", "x.sub.test.", "mail.test.", "srv.test.", "nope.test.", "medium.big.test.", "large.big.test.", "huge.big.test.", "big.test.",
    "a.plain.", "b.plain.", "zzz.plain.", "blocked.example.", "printer.lan.", "unknown.invalid.",
];

fn sentinel_query(id: u16) -> Vec<u8> {
    rwire::encode_plain(&WMsg {
        id, qr: false, opcode: 0, aa: false, tc: false, rd: false, ra: false, rcode: 0,
        questions: vec![WQ { name: N::parse("sentinel.test."), qtype: T_TXT, qclass: 1 }],
        answers: vec![], authority: vec![], additional: vec![],
    })
}

struct Auth {
    server: Server,
    zones: Zones,
}

static AUTH: OnceLock<Mutex<Option<Auth>>> = OnceLock::new();

fn start_auth() -> Result<Auth, String> {
    let dir = scratch("c09-auth");
    let zd = dir.join("zones");
    std::fs::create_dir_all(&zd).map_err(|e| e.to_string())?;
    for (n, t) in zone_files() {
        std::fs::write(zd.join(n), t).map_err(|e| e.to_string())?;
    }
    let hosts = dir.join("hosts");
    std::fs::write(&hosts, HOSTS).map_err(|e| e.to_string())?;
    let args = vec!["--authoritative-only".to_string(), "-Z".into(), zd.display().to_string(), "-a".into(), hosts.display().to_string()];
    let rt = tokio::runtime::Builder::new_current_thread().enable_all().build().map_err(|e| e.to_string())?;
    let zones = rt
        .block_on(resolved::fs::load_zone_configuration(&[hosts.clone()], &[], &[], &[zd.clone()]))
        .ok_or("harness could not load the configuration")?;
    let server = Server::start(dir, &args, &sentinel_query(0x5e5e))?;
    Ok(Auth { server, zones })
}

// --------------------------------------------------------------------------
// what the property says about one message

#[derive(Debug, Clone, PartialEq)]
enum Expect {
    NoReply,
    /// unparseable but flagged as a response: replying with FORMERR or staying silent are both fine
    FormErrOrNothing,
    FormErr,
    NotImp(WMsg),
    Refused(WMsg),
    /// standard query with zero or one question: answered by the resolver
    Resolve(WMsg),
}

fn is_unknown_q(q: &WQ) -> bool {
    let known_t = wiregen::KNOWN_TYPES.contains(&q.qtype) || (252..=255).contains(&q.qtype);
    let known_c = q.qclass == 1 || q.qclass == 255;
    !known_t || !known_c
}

fn expectation(bytes: &[u8]) -> Expect {
    if bytes.len() < 2 {
        return Expect::NoReply;
    }
    match rwire::decode(bytes) {
        Err(_) => {
            if bytes.len() >= 3 && bytes[2] & 0x80 != 0 {
                Expect::FormErrOrNothing
            } else {
                Expect::FormErr
            }
        }
        Ok(m) => {
            if m.qr {
                Expect::NoReply
            } else if m.opcode != 0 {
                Expect::NotImp(m)
            } else if m.questions.len() > 1 || m.questions.iter().any(is_unknown_q) {
                Expect::Refused(m)
            } else {
                Expect::Resolve(m)
            }
        }
    }
}

fn id_of(b: &[u8]) -> Option<u16> {
    if b.len() >= 2 {
        Some(u16::from_be_bytes([b[0], b[1]]))
    } else {
        None
    }
}

/// Judge one reply (already matched to its message by ID and transport).
fn judge_reply(zones: &Zones, recursion_offered: bool, msg: &[u8], reply: &[u8], via_udp: bool, full_tcp: Option<&[u8]>) -> Result<(), (String, String)> {
    let show = || format!("message [{}] {} -> reply [{}] {}", msg.len(), clip(msg), reply.len(), clip(reply));
    let exp = expectation(msg);
    if via_udp && reply.len() > 512 {
        return Err(("udp-reply-over-512".into(), show()));
    }
    if reply.len() < 12 {
        return Err(("reply-shorter-than-header".into(), show()));
    }
    if id_of(reply) != id_of(msg) {
        return Err(("reply-id-differs".into(), show()));
    }
    if reply[2] & 0x80 == 0 {
        return Err(("reply-without-qr".into(), show()));
    }
    let tc = reply[2] & 0x02 != 0;
    if tc {
        // cut short: exactly 512 octets over UDP (65535 over TCP) of a longer encoding
        let limit = if via_udp { 512 } else { 65_535 };
        if reply.len() != limit {
            return Err(("tc-on-uncut-reply".into(), show()));
        }
        if let Some(full) = full_tcp {
            if via_udp && (full.len() <= 512 || full[3..512] != reply[3..512] || full[..2] != reply[..2]) {
                return Err(("tc-reply-not-a-prefix".into(), format!("{}; full encoding has {} octets", show(), full.len())));
            }
        }
        return Ok(());
    }
    if via_udp {
        if let Some(full) = full_tcp {
            if full.len() > 512 {
                return Err(("cut-reply-without-tc".into(), show()));
            }
        }
    }
    let r = rwire::decode(reply).map_err(|e| ("reply-not-well-formed".to_string(), format!("{e:?}: {}", show())))?;
    let echo = |m: &WMsg| -> Result<(), (String, String)> {
        if r.opcode != m.opcode || r.rd != m.rd || r.questions != m.questions {
            return Err(("query-not-echoed".into(), show()));
        }
        Ok(())
    };
    match exp {
        Expect::NoReply => Err(("replied-to-response-or-runt".into(), show())),
        Expect::FormErr | Expect::FormErrOrNothing => {
            if r.rcode != 1 {
                return Err(("unparseable-not-formerr".into(), format!("rcode {}: {}", r.rcode, show())));
            }
            Ok(())
        }
        Expect::NotImp(m) => {
            echo(&m)?;
            if r.rcode != 4 {
                return Err(("opcode-not-notimp".into(), format!("rcode {}: {}", r.rcode, show())));
            }
            Ok(())
        }
        Expect::Refused(m) => {
            echo(&m)?;
            if r.rcode != 5 {
                return Err(("not-refused".into(), format!("rcode {}: {}", r.rcode, show())));
            }
            if r.ra != recursion_offered {
                return Err(("wrong-ra".into(), show()));
            }
            Ok(())
        }
        Expect::Resolve(m) => {
            echo(&m)?;
            if r.ra != recursion_offered {
                return Err(("wrong-ra".into(), show()));
            }
            if recursion_offered {
                return Ok(()); // content is judged by the caller (forwarding part)
            }
            // stateless configuration: the resolver's own result, mapped
            let (mut answers, mut authority, aa, rcode) = expected_content(zones, m.questions.first());
            let mut got_an = r.answers.clone();
            let mut got_ns = r.authority.clone();
            let key = |w: &WRR| format!("{w:?}");
            answers.sort_by_key(key);
            authority.sort_by_key(key);
            got_an.sort_by_key(key);
            got_ns.sort_by_key(key);
            if got_an != answers || got_ns != authority || r.aa != aa || r.rcode != rcode || !r.additional.is_empty() {
                return Err((
                    "content-differs-from-resolver".into(),
                    format!("resolver says rcode {rcode} aa {aa} answers {answers:?} authority {authority:?}; reply has rcode {} aa {} answers {:?} authority {:?}; {}", r.rcode, r.aa, r.answers, r.authority, show()),
                ));
            }
            // the answer section: the question name or its alias chain only
            if let Some(q) = m.questions.first() {
                if let Err(d) = answers_on_chain(q, &r.answers) {
                    // root cause "referral-in-answer-section": the name lies
                    // beneath a delegation point of an authoritative zone and
                    // the delegation's NS records are put into the answer
                    // section (with AA) instead of the authority section
                    let qn = q.name.lower();
                    let all_ns_of_ancestor = r.answers.iter().all(|rr| rr.rtype == T_NS && qn.is_at_or_below(&rr.name.lower()) && rr.name.lower() != qn || rr.name.lower() == qn)
                        && r.answers.iter().any(|rr| rr.rtype == T_NS && rr.name.lower() != qn);
                    let sig = if all_ns_of_ancestor { "referral-in-answer-section" } else { "answer-off-chain" };
                    return Err((sig.to_string(), format!("{d}; {}", show())));
                }
            }
            Ok(())
        }
    }
}

fn answers_on_chain(q: &WQ, answers: &[WRR]) -> Result<(), String> {
    let mut names: BTreeSet<N> = BTreeSet::new();
    let mut cur = q.name.lower();
    names.insert(cur.clone());
    for _ in 0..64 {
        let next = answers.iter().find_map(|r| if r.rtype == T_CNAME && r.name.lower() == cur { if let WData::Name(t) = &r.data { Some(t.lower()) } else { None } } else { None });
        match next {
            Some(t) if names.insert(t.clone()) => cur = t,
            _ => break,
        }
    }
    for r in answers {
        if !names.contains(&r.name.lower()) {
            return Err(format!("{r:?} is neither at the question name nor on its alias chain"));
        }
    }
    Ok(())
}

/// In-process `resolve` on the same files, and the documented mapping of its
/// result onto sections, AA and RCODE.
fn expected_content(zones: &Zones, q: Option<&WQ>) -> (Vec<WRR>, Vec<WRR>, bool, u8) {
    let Some(q) = q else { return (vec![], vec![], false, 2) };
    let question = super::c07::to_question(q);
    let rt = tokio::runtime::Builder::new_current_thread().enable_time().build().unwrap();
    let cache = SharedCache::new();
    let (_, res) = rt.block_on(dns_resolver::resolve(false, ProtocolMode::OnlyV4, 53, None, zones, &cache, &question));
    let (mut an, mut ns, mut aa, mut rcode) = (vec![], vec![], false, 0u8);
    match res {
        Ok(ResolvedRecord::Authoritative { rrs, soa_rr }) => {
            an = rrs.iter().map(rr_from_impl).collect();
            ns = vec![rr_from_impl(&soa_rr)];
            aa = true;
        }
        Ok(ResolvedRecord::AuthoritativeNameError { soa_rr }) => {
            ns = vec![rr_from_impl(&soa_rr)];
            aa = true;
            rcode = 3;
        }
        Ok(ResolvedRecord::NonAuthoritative { rrs, soa_rr }) => {
            an = rrs.iter().map(rr_from_impl).collect();
            ns = soa_rr.iter().map(rr_from_impl).collect();
        }
        Err(_) => {}
    }
    if an.is_empty() && ns.is_empty() && rcode == 0 {
        rcode = 2;
        aa = false;
    }
    (an, ns, aa, rcode)
}

fn clip(b: &[u8]) -> String {
    if b.len() <= 120 { hex(b) } else { format!("{}…", hex(&b[..120])) }
}

// --------------------------------------------------------------------------
// message generation

fn gen_query(g: &mut Gen) -> WMsg {
    let nq = g.weighted(&[1, 12, 1, 1]);
    let questions = (0..nq)
        .map(|_| WQ {
            name: {
                let n = N::parse(g.pick(&QUESTION_NAMES));
                if g.chance(1, 8) { N(n.0.iter().map(|l| l.to_ascii_uppercase()).collect()) } else { n }
            },
            qtype: match g.weighted(&[8, 2, 1, 1]) {
                0 => g.pick(&[1u16, 1, 28, 2, 5, 6, 15, 16, 33, 12]),
                1 => g.pick(&[255u16, 252, 253, 254]),
                2 => g.pick(&[0u16, 17, 41, 99, 251, 256, 65_535]),
                _ => g.pick(&wiregen::KNOWN_TYPES),
            },
            qclass: match g.weighted(&[10, 1, 1]) {
                0 => 1,
                1 => 255,
                _ => g.pick(&[0u16, 2, 3, 4, 254, 65_535]),
            },
        })
        .collect();
    let plain = g.chance(3, 4);
    let f = g.u16();
    WMsg {
        id: 0,
        qr: !plain && f & 1 != 0,
        opcode: if plain { 0 } else { (f >> 1 & 15) as u8 },
        aa: !plain && f >> 5 & 1 != 0,
        tc: !plain && f >> 6 & 1 != 0,
        rd: f >> 7 & 1 != 0,
        ra: !plain && f >> 8 & 1 != 0,
        rcode: if plain { 0 } else { (f >> 9 & 15) as u8 },
        questions,
        answers: vec![],
        authority: vec![],
        additional: if g.chance(1, 10) { vec![wiregen::gen_rr(g, &[N::parse("x.test.")], 20)] } else { vec![] },
    }
}

fn gen_msg(g: &mut Gen, index: usize, tier_heavy: bool) -> Msg {
    let via = if g.chance(3, 5) {
        Via::Udp
    } else {
        Via::Tcp(match g.weighted(&[6, 2, 2, 1]) {
            0 => TcpStyle::Whole,
            1 => TcpStyle::Pieces,
            2 => TcpStyle::ShortThenClose(g.pick(&[1u16, 2, 100, 60_000])),
            _ => TcpStyle::Trailing(g.range(1, 40) as u8),
        })
    };
    let mut bytes = match g.weighted(&[10, 3, 2, 1]) {
        0 => rwire::encode_plain(&gen_query(g)),
        1 => {
            let mut b = rwire::encode_plain(&gen_query(g));
            if g.bool() && !b.is_empty() {
                let i = g.below(b.len());
                b[i] = g.pick(&[0u8, 0x3f, 0x40, 0xc0, 0xff, b[i].wrapping_add(1)]);
            } else {
                let n = g.below(b.len() + 1);
                b.truncate(n);
            }
            b
        }
        2 => {
            let all = Construction::all();
            let mut c = g.pick(&all);
            if (c.is_heavy() && !tier_heavy) || (via == Via::Udp && c.bytes().len() > 512) {
                c = Construction::SelfPointer;
            }
            c.bytes()
        }
        _ => {
            let n = g.below(12);
            g.bytes(n)
        }
    };
    if via == Via::Udp {
        bytes.truncate(512);
    }
    // unique ID per message of the batch (0x5e5e is the sentinel's)
    if bytes.len() >= 2 {
        let id = 0x1000u16 + index as u16;
        bytes[0] = (id >> 8) as u8;
        bytes[1] = id as u8;
    }
    Msg { via, bytes }
}

// --------------------------------------------------------------------------
// running a batch against a server

struct BatchResult {
    /// per message: replies received (UDP: matched by ID; TCP: from its connection)
    replies: Vec<Vec<Vec<u8>>>,
    tcp_prefix_mismatch: Option<String>,
    stray: Vec<Vec<u8>>,
}

fn run_batch(addr: SocketAddr, b: &Batch) -> Result<BatchResult, String> {
    let mut replies: Vec<Vec<Vec<u8>>> = vec![vec![]; b.msgs.len()];
    let mut stray = Vec::new();
    let mut tcp_prefix_mismatch = None;
    let sock = UdpSocket::bind("127.0.0.1:0").map_err(|e| e.to_string())?;
    sock.connect(addr).map_err(|e| e.to_string())?;
    // a client that connects, sends one octet and then keeps quiet must not
    // keep anybody else from being served
    let _idle = if b.idle_tcp_client {
        use std::io::Write;
        std::net::TcpStream::connect_timeout(&addr, Duration::from_secs(2)).ok().map(|mut s| {
            let _ = s.write_all(&[0]);
            s
        })
    } else {
        None
    };
    // TCP conversations and UDP datagrams interleave in batch order
    for (i, m) in b.msgs.iter().enumerate() {
        match &m.via {
            Via::Udp => {
                sock.send(&m.bytes).map_err(|e| format!("udp send: {e}"))?;
            }
            Via::Tcp(style) => match tcp_exchange(addr, &m.bytes, *style, Duration::from_secs(if b.idle_tcp_client { 4 } else { 15 })) {
                Ok(Some((n, payload))) => {
                    if n as usize != payload.len() {
                        tcp_prefix_mismatch = Some(format!("message {i}: length prefix {n} but {} octets followed", payload.len()));
                    }
                    replies[i].push(payload);
                }
                Ok(None) => {}
                Err(e) => return Err(format!("tcp exchange: {e}")),
            },
        }
    }
    // sentinel, then collect
    let sid = 0x5e5e;
    sock.send(&sentinel_query(sid)).map_err(|e| e.to_string())?;
    let by_id: BTreeMap<u16, usize> = b.msgs.iter().enumerate().filter(|(_, m)| m.via == Via::Udp).filter_map(|(i, m)| id_of(&m.bytes).map(|id| (id, i))).collect();
    let mut buf = vec![0u8; 65_536];
    let t0 = Instant::now();
    let mut sentinel_at: Option<Instant> = None;
    // UDP messages that must be answered (a slow upstream may delay the answer
    // by up to 5 s + 5 s): keep listening for those, up to 12 s
    let expecting: Vec<usize> = b
        .msgs
        .iter()
        .enumerate()
        .filter(|(_, m)| m.via == Via::Udp && !matches!(expectation(&m.bytes), Expect::NoReply | Expect::FormErrOrNothing))
        .map(|x| x.0)
        .collect();
    loop {
        let missing = expecting.iter().any(|i| replies[*i].is_empty());
        let wait = match sentinel_at {
            // grace period for stragglers after the sentinel came back
            Some(t) if missing => Duration::from_secs(12).saturating_sub(t.elapsed()),
            Some(t) => Duration::from_millis(60).saturating_sub(t.elapsed()),
            None => Duration::from_secs(20).saturating_sub(t0.elapsed()),
        };
        if wait.is_zero() {
            break;
        }
        sock.set_read_timeout(Some(wait.max(Duration::from_millis(1)))).map_err(|e| e.to_string())?;
        match sock.recv(&mut buf) {
            Ok(n) => {
                let r = buf[..n].to_vec();
                match id_of(&r) {
                    Some(id) if id == sid => sentinel_at = Some(Instant::now()),
                    Some(id) if by_id.contains_key(&id) => replies[by_id[&id]].push(r),
                    _ => stray.push(r),
                }
            }
            Err(e) if e.kind() == std::io::ErrorKind::WouldBlock || e.kind() == std::io::ErrorKind::TimedOut => {
                if sentinel_at.is_some() {
                    break;
                }
                return Err("sentinel query not answered within 20 s".into());
            }
            Err(e) => return Err(format!("udp recv: {e}")),
        }
    }
    Ok(BatchResult { replies, tcp_prefix_mismatch, stray })
}

pub struct Authoritative;

impl Prop for Authoritative {
    type Case = Batch;
    fn name(&self) -> &'static str {
        "authoritative-only"
    }
    fn tape_len(&self) -> usize {
        900
    }
    fn max_shrink_iters(&self) -> u32 {
        40
    }
    fn cases(&self, tier: Tier) -> u64 {
        tier.pick(1_600, 40_000)
    }
    fn generate(&self, g: &mut Gen) -> Batch {
        let n = g.range(1, 16);
        let heavy = g.chance(1, 40);
        Batch { msgs: (0..n).map(|i| gen_msg(g, i, heavy)).collect(), idle_tcp_client: g.chance(1, 3) }
    }
    fn enumerate(&self, _tier: Tier, emit: &mut dyn FnMut(Batch)) {
        // every question name x the common types, over both transports
        for (k, name) in QUESTION_NAMES.iter().enumerate() {
            let mut msgs = Vec::new();
            for (j, t) in [1u16, 28, 16, 5, 2, 6, 255].into_iter().enumerate() {
                let q = WMsg { id: 0x1000 + (j as u16), qr: false, opcode: 0, aa: false, tc: false, rd: j % 2 == 0, ra: false, rcode: 0, questions: vec![WQ { name: N::parse(name), qtype: t, qclass: 1 }], answers: vec![], authority: vec![], additional: vec![] };
                msgs.push(Msg { via: if (j + k) % 2 == 0 { Via::Udp } else { Via::Tcp(TcpStyle::Whole) }, bytes: rwire::encode_plain(&q) });
            }
            emit(Batch { msgs, idle_tcp_client: false });
        }
        // the adversarial constructions over TCP (incl. the maximal pointer chains)
        for c in Construction::all() {
            let mut bytes = c.bytes();
            if bytes.len() >= 2 {
                bytes[0] = 0x10;
                bytes[1] = 0x00;
            }
            emit(Batch { msgs: vec![Msg { via: Via::Tcp(TcpStyle::Whole), bytes }], idle_tcp_client: false });
        }
    }
    fn check(&self, b: &Batch) -> Outcome {
        let cell = AUTH.get_or_init(|| Mutex::new(None));
        let mut guard = cell.lock().unwrap();
        // (re)start when there is no server or the previous case killed it
        if guard.as_mut().map_or(true, |a| !a.server.alive()) {
            match start_auth() {
                Ok(a) => *guard = Some(a),
                Err(e) => return Outcome::pass(false).class("server-not-started").class(e),
            }
        }
        let auth = guard.as_mut().unwrap();
        judge_batch(&mut auth.server, &auth.zones, false, b)
    }
}

fn judge_batch(server: &mut Server, zones: &Zones, recursion_offered: bool, b: &Batch) -> Outcome {
    let malformed = b.msgs.iter().filter(|m| matches!(expectation(&m.bytes), Expect::FormErr | Expect::FormErrOrNothing | Expect::NoReply)).count();
    let both = b.msgs.iter().any(|m| m.via == Via::Udp) && b.msgs.iter().any(|m| m.via != Via::Udp);
    let mut out = Outcome::pass(malformed >= 1 && malformed < b.msgs.len() && both).count("messages", b.msgs.len() as u64);
    let res = match run_batch(server.addr, b) {
        Ok(r) => r,
        Err(e) => {
            if !server.alive() {
                return out.fail("server-died", format!("{e}; log tail: {}", tail(&server.log_text())));
            }
            return out.fail("server-unresponsive", e);
        }
    };
    if !server.alive() {
        return out.fail("server-died", format!("log tail: {}", tail(&server.log_text())));
    }
    if let Some(d) = res.tcp_prefix_mismatch {
        return out.fail("tcp-length-prefix-wrong", d);
    }
    if let Some(s) = res.stray.first() {
        return out.fail("stray-reply", format!("reply with an ID no message had: {}", clip(s)));
    }
    for (i, m) in b.msgs.iter().enumerate() {
        let exp = expectation(&m.bytes);
        let got = &res.replies[i];
        let udp = m.via == Via::Udp;
        out.classes.push(format!("expect:{}", format!("{exp:?}").split('(').next().unwrap_or("")));
        // a TCP message whose announced length exceeds what was sent is unparseable input
        let exp = match (&m.via, exp) {
            (Via::Tcp(TcpStyle::ShortThenClose(_)), _) if m.bytes.len() >= 2 => Expect::FormErr,
            (Via::Tcp(TcpStyle::ShortThenClose(_)), _) => Expect::NoReply,
            (_, e) => e,
        };
        match (&exp, got.len()) {
            (Expect::NoReply, 0) | (Expect::FormErrOrNothing, 0) => continue,
            (Expect::NoReply, _) => return out.fail("replied-to-response-or-runt", format!("message {i} {} got {} replies: {}", clip(&m.bytes), got.len(), clip(&got[0]))),
            (_, 0) => return out.fail("no-reply", format!("message {i} over {:?} got no reply: [{}] {}", m.via, m.bytes.len(), clip(&m.bytes))),
            (_, 1) => {}
            (_, n) => return out.fail("several-replies", format!("message {i} got {n} replies")),
        }
        // TC and cut replies: learn the full encoding over TCP
        let reply = &got[0];
        let mut full: Option<Vec<u8>> = None;
        if udp && (reply.len() >= 512 || reply[2] & 0x02 != 0) {
            if let Ok(Some((_, p))) = tcp_exchange(server.addr, &m.bytes, TcpStyle::Whole, Duration::from_secs(15)) {
                full = Some(p);
            }
            out.classes.push("udp-reply-at-limit".into());
        }
        let j = if matches!(m.via, Via::Tcp(TcpStyle::ShortThenClose(_))) {
            // only framing and FORMERR are judged for a message that never arrived in full
            match rwire::decode(reply) {
                Ok(r) if r.rcode == 1 && r.qr && Some(r.id) == id_of(&m.bytes) => Ok(()),
                other => Err(("unparseable-not-formerr".to_string(), format!("short TCP message {} got {:?}", clip(&m.bytes), other.map(|r| r.rcode)))),
            }
        } else {
            judge_reply(zones, recursion_offered, &m.bytes, reply, udp, full.as_deref())
        };
        if let Err((s, d)) = j {
            return out.fail(s, format!("message {i} over {:?}: {d}", m.via));
        }
    }
    out
}

fn tail(s: &str) -> String {
    let lines: Vec<&str> = s.lines().collect();
    lines[lines.len().saturating_sub(6)..].join(" | ")
}

// --------------------------------------------------------------------------
// forwarding configuration with a scripted loopback forwarder

struct Fwd {
    server: Server,
    zones: Zones,
    sent: Arc<Mutex<Vec<WRR>>>,
}

static FWD: OnceLock<Mutex<Option<Fwd>>> = OnceLock::new();

/// Behaviour is encoded in the first label of the question name.
fn forwarder_answer(q: &WQ) -> (WMsg, &'static str) {
    let first = q.name.0.first().map(|l| String::from_utf8_lossy(l).to_string()).unwrap_or_default();
    let tag = first.bytes().filter(|b| b.is_ascii_digit()).fold(0u32, |a, b| a * 10 + u32::from(b - b'0')) % 250;
    let base = WMsg { id: 0, qr: true, opcode: 0, aa: false, tc: false, rd: true, ra: true, rcode: 0, questions: vec![q.clone()], answers: vec![], authority: vec![], additional: vec![] };
    let a = |name: &N| WRR { name: name.clone(), rtype: T_A, rclass: 1, ttl: 4000 + tag, data: WData::A([198, 18, 1, tag as u8]) };
    let soa = WRR { name: N::parse("fwd."), rtype: T_SOA, rclass: 1, ttl: 60, data: WData::Soa { mname: N::parse("ns.fwd."), rname: N::parse("h.fwd."), serial: 1, refresh: 1, retry: 1, expire: 1, minimum: 60 } };
    let mut m = base;
    let kind: &'static str = if first.starts_with("cname") {
        let target = N::parse(&format!("target{tag}.fwd."));
        m.answers = vec![WRR { name: q.name.lower(), rtype: T_CNAME, rclass: 1, ttl: 4000 + tag, data: WData::Name(target.clone()) }, a(&target)];
        "cname"
    } else if first.starts_with("nx") {
        m.rcode = 3;
        m.authority = vec![soa];
        "nx"
    } else if first.starts_with("cut") {
        m.answers = vec![a(&q.name.lower())];
        "cut"
    } else if first.starts_with("tcpcut") {
        // TC over UDP; over TCP the length prefix and then only the first 0..3 octets of the reply
        m.answers = vec![a(&q.name.lower())];
        "tcpcut"
    } else if first.starts_with("tc") {
        m.answers = vec![a(&q.name.lower())];
        "tc"
    } else if first.starts_with("garbage") {
        m.answers = vec![a(&q.name.lower())];
        "garbage"
    } else if first.starts_with("silent") {
        "silent"
    } else {
        m.answers = vec![a(&q.name.lower())];
        "ok"
    };
    (m, kind)
}

fn start_forwarder(sent: Arc<Mutex<Vec<WRR>>>) -> Result<u16, String> {
    let port = free_port();
    let udp = UdpSocket::bind(("127.0.0.1", port)).map_err(|e| e.to_string())?;
    let tcp = TcpListener::bind(("127.0.0.1", port)).map_err(|e| e.to_string())?;
    let sent_u = sent.clone();
    std::thread::spawn(move || {
        let mut buf = vec![0u8; 65_536];
        loop {
            let Ok((n, peer)) = udp.recv_from(&mut buf) else { continue };
            let Ok(req) = rwire::decode(&buf[..n]) else { continue };
            let Some(q) = req.questions.first() else { continue };
            let (mut m, kind) = forwarder_answer(q);
            m.id = req.id;
            let bytes = match kind {
                "silent" => continue,
                "tc" | "tcpcut" => {
                    let mut t = m.clone();
                    t.tc = true;
                    t.answers.clear();
                    rwire::encode_plain(&t)
                }
                "cut" => {
                    // a datagram cut short inside the answer record
                    let mut b = rwire::encode_plain(&m);
                    let keep = 12 + q.name.wire_len() + 4 + 3;
                    b.truncate(keep.min(b.len()));
                    b
                }
                "garbage" => {
                    let mut b = rwire::encode_plain(&m);
                    for (i, x) in b.iter_mut().enumerate().skip(12) {
                        *x = x.wrapping_mul(31).wrapping_add(i as u8);
                    }
                    b
                }
                _ => {
                    sent_u.lock().unwrap().extend(m.answers.iter().cloned());
                    rwire::encode_plain(&m)
                }
            };
            let _ = udp.send_to(&bytes, peer);
        }
    });
    std::thread::spawn(move || {
        for stream in tcp.incoming() {
            let Ok(mut s) = stream else { continue };
            let sent_t = sent.clone();
            std::thread::spawn(move || {
                use std::io::{Read, Write};
                let _ = s.set_read_timeout(Some(Duration::from_secs(5)));
                let mut l = [0u8; 2];
                if s.read_exact(&mut l).is_err() {
                    return;
                }
                let mut b = vec![0u8; u16::from_be_bytes(l) as usize];
                if s.read_exact(&mut b).is_err() {
                    return;
                }
                let Ok(req) = rwire::decode(&b) else { return };
                let Some(q) = req.questions.first() else { return };
                let (mut m, kind) = forwarder_answer(q);
                if kind == "silent" {
                    std::thread::sleep(Duration::from_secs(12));
                    return;
                }
                m.id = req.id;
                let bytes = rwire::encode_plain(&m);
                if kind == "tcpcut" {
                    // the number in the first label decides how much arrives: 0..3 octets
                    let first = q.name.0.first().map(|l| String::from_utf8_lossy(l).to_string()).unwrap_or_default();
                    let n = first.bytes().filter(|b| b.is_ascii_digit()).fold(0usize, |a, b| a * 10 + usize::from(b - b'0')) % 4;
                    let _ = s.write_all(&(bytes.len() as u16).to_be_bytes());
                    let _ = s.write_all(&bytes[..n]);
                    let _ = s.shutdown(std::net::Shutdown::Both);
                    return;
                }
                sent_t.lock().unwrap().extend(m.answers.iter().cloned());
                let _ = s.write_all(&(bytes.len() as u16).to_be_bytes());
                let _ = s.write_all(&bytes);
            });
        }
    });
    Ok(port)
}

fn start_fwd() -> Result<Fwd, String> {
    let sent: Arc<Mutex<Vec<WRR>>> = Default::default();
    let fport = start_forwarder(sent.clone())?;
    let dir = scratch("c09-fwd");
    let zd = dir.join("zones");
    std::fs::create_dir_all(&zd).map_err(|e| e.to_string())?;
    for (n, t) in zone_files() {
        std::fs::write(zd.join(n), t).map_err(|e| e.to_string())?;
    }
    let args = vec!["-f".to_string(), format!("127.0.0.1:{fport}"), "-Z".into(), zd.display().to_string()];
    let rt = tokio::runtime::Builder::new_current_thread().enable_all().build().map_err(|e| e.to_string())?;
    let zones = rt.block_on(resolved::fs::load_zone_configuration(&[], &[], &[], &[zd.clone()])).ok_or("harness could not load the configuration")?;
    let server = Server::start(dir, &args, &sentinel_query(0x5e5e))?;
    Ok(Fwd { server, zones, sent })
}

#[derive(Debug, Clone, PartialEq, Eq, Hash, Serialize, Deserialize)]
pub struct FwdBatch {
    /// (first label kind, number, via tcp, RD)
    pub queries: Vec<(String, u16, bool, bool)>,
}

pub struct Forwarding;

impl Prop for Forwarding {
    type Case = FwdBatch;
    fn name(&self) -> &'static str {
        "forwarding"
    }
    fn tape_len(&self) -> usize {
        100
    }
    fn max_shrink_iters(&self) -> u32 {
        80
    }
    fn cases(&self, tier: Tier) -> u64 {
        tier.pick(320, 16_000)
    }
    fn generate(&self, g: &mut Gen) -> FwdBatch {
        let n = g.range(1, 8);
        FwdBatch {
            queries: (0..n)
                .map(|_| {
                    let kind = g.pick(&["ok", "ok", "cname", "nx", "cut", "cut", "tc", "tcpcut", "garbage", "local"]).to_string();
                    // a fresh number most of the time: a name that is not in the cache yet
                    (kind, g.u16(), g.chance(1, 4), !g.chance(1, 6))
                })
                .collect(),
        }
    }
    fn enumerate(&self, tier: Tier, emit: &mut dyn FnMut(FwdBatch)) {
        if tier == Tier::Thorough {
            // a silent forwarder: 5 s UDP + 5 s TCP, then SERVFAIL; the server must stay up
            emit(FwdBatch { queries: vec![("silent".into(), 1, false, true), ("ok".into(), 2, false, true)] });
        }
    }
    fn check(&self, b: &FwdBatch) -> Outcome {
        let cell = FWD.get_or_init(|| Mutex::new(None));
        let mut guard = cell.lock().unwrap();
        if guard.as_mut().map_or(true, |a| !a.server.alive()) {
            match start_fwd() {
                Ok(a) => *guard = Some(a),
                Err(e) => return Outcome::pass(false).class("server-not-started").class(e),
            }
        }
        let fwd = guard.as_mut().unwrap();
        let pid = std::process::id();
        let mut msgs = Vec::new();
        let mut questions = Vec::new();
        for (i, (kind, num, tcp, rd)) in b.queries.iter().enumerate() {
            let name = if kind == "local" { N::parse("www.test.") } else { N::parse(&format!("{kind}{num}.p{pid}.fwd.")) };
            let q = WQ { name, qtype: T_A, qclass: 1 };
            let m = WMsg { id: 0x1000 + i as u16, qr: false, opcode: 0, aa: false, tc: false, rd: *rd, ra: false, rcode: 0, questions: vec![q.clone()], answers: vec![], authority: vec![], additional: vec![] };
            msgs.push(Msg { via: if *tcp { Via::Tcp(TcpStyle::Whole) } else { Via::Udp }, bytes: rwire::encode_plain(&m) });
            questions.push((q, kind.clone(), *rd));
        }
        let batch = Batch { msgs, idle_tcp_client: false };
        // framing, echo, RA: the common judge
        let mut out = judge_batch(&mut fwd.server, &fwd.zones, true, &batch);
        if out.failure.is_some() {
            return out;
        }
        out.nontrivial = b.queries.iter().any(|q| q.0 == "cut" || q.0 == "tc" || q.0 == "tcpcut" || q.0 == "garbage") && b.queries.len() >= 2;
        // content: ask again one by one (answers come from the cache now or are fetched again)
        let zone_model_names: Vec<N> = vec![N::parse("www.test.")];
        for (q, kind, rd) in &questions {
            let m = WMsg { id: 0x2222, qr: false, opcode: 0, aa: false, tc: false, rd: *rd, ra: false, rcode: 0, questions: vec![q.clone()], answers: vec![], authority: vec![], additional: vec![] };
            let reply = match udp_exchange(fwd.server.addr, &rwire::encode_plain(&m), Duration::from_secs(15)) {
                Ok(Some(r)) => r,
                Ok(None) => return out.fail("no-reply", format!("{} got no reply", q.name)),
                Err(e) => return out.fail("server-unresponsive", e.to_string()),
            };
            let Ok(r) = rwire::decode(&reply) else { return out.fail("reply-not-well-formed", clip(&reply)) };
            out.classes.push(format!("fwd:{kind}"));
            if let Err(d) = answers_on_chain(q, &r.answers) {
                return out.fail("answer-off-chain", d);
            }
            let sent = fwd.sent.lock().unwrap().clone();
            for rr in &r.answers {
                let from_fwd = sent.iter().any(|s| s.name.lower() == rr.name.lower() && s.rtype == rr.rtype && s.data == rr.data);
                let from_zone = zone_model_names.contains(&rr.name.lower());
                if !from_fwd && !from_zone {
                    return out.fail("record-from-nowhere", format!("{rr:?} in the answer to {} was supplied neither by the forwarder nor by a zone file; reply {}", q.name, clip(&reply)));
                }
            }
            // with RD set, what the forwarder knows must come back (UDP failures fall back to TCP)
            if *rd && ["ok", "cut", "tc", "garbage", "cname"].contains(&kind.as_str()) && (r.rcode != 0 || r.answers.is_empty()) {
                return out.fail("forwarded-answer-lost", format!("{} ({kind}): rcode {} with {} answers", q.name, r.rcode, r.answers.len()));
            }
        }
        out
    }
}

pub fn def() -> PropertyDef {
    PropertyDef {
        id: "C09",
        level: "exploration",
        rule: "authoritative-only: one running `resolved --authoritative-only` (shipped binary, guard off) with fixed zone and hosts files (authoritative zone with aliases, alias loop, wildcard records and a wildcard alias asked one and two labels below, empty non-terminals, delegation, RRsets of 1 KB, 12 KB and 75 KB; a non-authoritative zone; hosts entries). A case is a batch of 1..16 messages interleaved over one UDP socket and separate TCP connections (one batch in three with an idle TCP client connected throughout; whole, dribbled in pieces, announced longer than sent then half-closed, with trailing junk): well-formed queries with arbitrary header bits, 0..3 questions, known/special/unknown types and classes; single-byte mutations and truncations of them; the C03 adversarial constructions (incl. the 8180-hop pointer chains over TCP); runts of 0..11 octets. Every message has its own ID; a sentinel query closes the batch. Oracle per message, with the reference decoder as the only reader of replies: no reply iff QR=1 or fewer than 2 octets (unparseable input with the QR bit set: either); otherwise exactly one reply, same ID, QR=1; FORMERR iff the reference decoder rejects; NOTIMP iff opcode != 0; REFUSED iff more than one question or an unknown type/class; opcode, RD and questions echoed; RA clear; UDP <= 512 octets and TC iff the full encoding (learnt over TCP) is longer, the cut reply being its prefix; TCP length prefix = octets that follow; answer, authority, AA and RCODE equal those of dns_resolver::resolve run in-process on the same files through the documented mapping (SERVFAIL for an error or empty result); answer records only at the question name or on its alias chain; the server process is alive and answers the sentinel after every batch; no stray replies. Also enumerated: every configured name x 7 types on both transports, and every adversarial construction over TCP. forwarding: a second server forwarding to a scripted loopback forwarder (real sockets, so the real UDP receive path): replies cut short inside a record, TC, TC followed by a TCP reply of which only the length prefix and 0..3 octets arrive, garbage, CNAME, NXDOMAIN, (thorough) silence; same framing rules with RA set; every answer record must have been supplied by the forwarder or a zone file and lie on the alias chain; with RD set the forwarder's answer must come back. Non-trivial = a batch with both malformed and well-formed messages over both transports / a forwarding batch with a faulty datagram. Distinct by hash of the batch.",
        assumptions: vec![
            "replies are collected until the sentinel's reply plus a 60 ms grace period; a missing sentinel reply within 20 s is reported as server-unresponsive",
            "unparseable input whose QR bit is set may be answered with FORMERR or not at all",
        ],
        parts: vec![Box::new(Authoritative), Box::new(Forwarding)],
        budget_s: |t| t.pick(1200, 10_800),
        needs_repo_bins: true,
    }
}

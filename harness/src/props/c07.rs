//! C07 — recursive resolution finds the authoritative answer in any
//! delegation tree.

use std::net::IpAddr;

use dns_resolver::cache::{verif as clock, SharedCache};
use dns_resolver::util::types::{ProtocolMode, ResolutionError, ResolvedRecord};
use dns_types::protocol::types::*;
use dns_types::zones::types::Zones;
use serde::{Deserialize, Serialize};

use crate::engine::{Outcome, Prop, PropertyDef, Tier};
use crate::gen::Gen;
use crate::mock::*;
use crate::rwire::{WMsg, WQ, WRR};
use crate::rzone::*;
use crate::universe::*;
use crate::util::N;

#[derive(Debug, Clone, PartialEq, Eq, Hash, Serialize, Deserialize)]
pub struct Case {
    pub universe: Universe,
    pub questions: Vec<WQ>,
    /// 0 only-v4, 1 prefer-v4, 2 prefer-v6, 3 only-v6
    pub protocol: u8,
    /// seconds the cache clock advances before question i (cached records age and expire)
    #[serde(default)]
    pub advance_s: Vec<u32>,
}

pub fn protocol_of(p: u8) -> ProtocolMode {
    match p % 4 {
        0 => ProtocolMode::OnlyV4,
        1 => ProtocolMode::PreferV4,
        2 => ProtocolMode::PreferV6,
        _ => ProtocolMode::OnlyV6,
    }
}

/// Can every zone be reached in this mode (some NS host has a usable address)?
pub fn reachable(u: &Universe, p: u8) -> bool {
    u.zones.iter().all(|z| {
        z.ns.iter().any(|n| {
            u.host(n).map_or(false, |h| match p % 4 {
                0 => !h.v4.is_empty(),
                3 => !h.v6.is_empty(),
                _ => true,
            })
        })
    })
}

pub fn to_question(q: &WQ) -> Question {
    Question {
        name: q.name.dom(),
        qtype: QueryType::from(q.qtype),
        qclass: QueryClass::from(q.qclass),
    }
}

pub fn universe_responder(u: Universe) -> Responder {
    Box::new(move |ctx: &Ctx| {
        let Some(req) = ctx.request else { return Action::Silence };
        let Some(q) = req.questions.first() else { return Action::Silence };
        match u.serve(ctx.dest.ip(), q) {
            None => Action::Silence,
            Some(m) => Action::Reply { bytes: wire_reply(m, req, ctx.tcp), delay_ms: 20, label: "universe".into() },
        }
    })
}

pub fn gen_questions(g: &mut Gen, u: &Universe, max: usize) -> Vec<WQ> {
    let names = u.question_names();
    let mut host_names: Vec<N> = u.hosts.iter().map(|h| h.name.clone()).collect();
    host_names.sort();
    let mut owners: Vec<N> = u.zones.iter().flat_map(|z| z.recs.iter().filter(|r| !r.wild).map(|r| r.owner.clone())).collect();
    let mut aliases: Vec<N> = u.zones.iter().flat_map(|z| z.recs.iter().filter(|r| !r.wild && r.rtype == T_CNAME).map(|r| r.owner.clone())).collect();
    owners.sort();
    owners.dedup();
    aliases.sort();
    if owners.is_empty() {
        owners = names.clone();
    }
    if aliases.is_empty() {
        aliases = owners.clone();
    }
    let n = g.range(1, max);
    let mut qs = Vec::new();
    for _ in 0..n {
        let name = match g.weighted(&[4, 4, 3, 2, 1]) {
            0 => g.pick(&owners),
            1 => g.pick(&aliases),
            2 => g.pick(&names),
            3 => g.pick(&host_names),
            _ => g.pick(&u.zones).apex.clone(),
        };
        let mut qtype = g.pick(&[T_A, T_A, T_AAAA, T_TXT, T_MX, T_NS, T_SOA, T_CNAME, Q_ANY]);
        // deviation D4: CNAME / ANY questions at alias names are outside the comparison
        if qtype == T_CNAME || qtype == Q_ANY {
            let t = u.truth(&WQ { name: name.clone(), qtype: T_A, qclass: 1 });
            if !t.chain.is_empty() {
                qtype = T_A;
            }
        }
        qs.push(WQ { name, qtype, qclass: 1 });
    }
    qs
}

/// Compare a resolver result with the ground truth.
pub fn compare_with_truth(res: &ResolvedRecord, t: &Truth) -> Result<(), (String, String)> {
    let (rrs, soa) = match res {
        ResolvedRecord::NonAuthoritative { rrs, soa_rr } => (rrs, soa_rr),
        other => return Err(("authoritative-without-local-zone".into(), format!("{other:?}"))),
    };
    let rows: Vec<RRow> = rrs.iter().map(row_of).collect();
    let strip = |r: &RRow| (r.0.clone(), r.1, r.2.clone());
    let n = t.chain.len();
    if rows.len() < n || rows[..n].iter().map(strip).collect::<Vec<_>>() != t.chain.iter().map(strip).collect::<Vec<_>>() {
        return Err(("wrong-alias-chain".into(), format!("got {rows:?}, authoritative chain {:?}", t.chain)));
    }
    let mut got_final: Vec<_> = rows[n..].iter().map(strip).collect();
    let mut want_final: Vec<_> = t.finals.iter().map(strip).collect();
    got_final.sort();
    want_final.sort();
    if got_final != want_final {
        let sig = if want_final.len() > got_final.len() && got_final.iter().all(|r| want_final.contains(r)) && got_final.len() == 1 && (got_final[0].1 == T_A || got_final[0].1 == T_AAAA) {
            "partial-address-set"
        } else {
            "wrong-final-records"
        };
        return Err((sig.into(), format!("got {:?}, authoritative servers hold {:?}", &rows[n..], t.finals)));
    }
    // TTLs never exceed the authoritative ones
    for r in &rows {
        let auth = t.chain.iter().chain(t.finals.iter()).find(|a| strip(a) == strip(r));
        if let Some(a) = auth {
            if r.3 > a.3 {
                return Err(("ttl-exceeds-authoritative".into(), format!("{r:?} vs {a:?}")));
            }
        }
    }
    match (&t.soa, soa) {
        (None, None) => Ok(()),
        (Some(w), Some(g)) => {
            let g = crate::rwire::rr_from_impl(g);
            if (g.name.clone(), g.rtype, g.data.clone()) == (w.name.clone(), w.rtype, w.data.clone()) {
                Ok(())
            } else {
                Err(("wrong-soa".into(), format!("got {g:?}, want {w:?}")))
            }
        }
        (Some(w), None) => Err(("missing-soa".into(), format!("empty answer without the SOA {w:?}"))),
        (None, Some(g)) => Err(("unexpected-soa".into(), format!("{g:?}"))),
    }
}

/// Each referral followed for the question is strictly closer to the question
/// name than the previous one.
///
/// Judged on the session's own question, which is resolved in exactly one
/// attempt (it stays on the resolver's question stack throughout, so it cannot
/// recur as a sub-question): whenever an exchange about it is followed by
/// another one (a TCP retry after a truncated reply excepted), the reply in
/// between must have been a referral - NS records owned by an ancestor of the
/// question name - and deeper than the referral followed before.  Depth is
/// that of the NS owner, not of the server: one server may serve a zone and
/// its child, and a negative answer in the RFC 2308 "type 1" shape (SOA plus
/// the zone's NS set) from such a server is legitimately followed as a
/// referral to the child zone, at the same address.  The address look-ups for
/// nameserver hosts can be attempted several times within one resolution, each
/// attempt starting from whatever the cache holds (the cached NS set of the
/// question's own name is invisible to them): they are only required to be
/// put to servers of an enclosing zone.
pub fn referrals_monotone(u: &Universe, log: &[Exchange], main: &WQ) -> Result<u32, (String, String)> {
    let main = WQ { name: main.name.lower(), qtype: main.qtype, qclass: main.qclass };
    let mut referrals = 0;
    // (depth of the referral in the previous reply about the main question, was that reply truncated)
    let mut prev: Option<(Option<usize>, bool, IpAddr, bool)> = None;
    let mut last_followed: Option<usize> = None;
    for e in log {
        let Some(q) = question_of(e.request.as_ref()) else { continue };
        let q = WQ { name: q.name.lower(), qtype: q.qtype, qclass: q.qclass };
        let served = u.zones_at(e.dest.ip());
        if !served.iter().any(|i| q.name.is_at_or_below(&u.zones[*i].apex)) {
            return Err(("asked-unrelated-server".into(), format!("{} asked about {} which it does not serve", e.dest, q.name)));
        }
        let referral_depth = e.reply.as_ref().and_then(|r| {
            r.authority.iter().chain(r.answers.iter()).filter(|rr| rr.rtype == T_NS && q.name.is_at_or_below(&rr.name.lower()) && !(rr.name.lower() == q.name && q.qtype == T_NS && !r.answers.is_empty())).map(|rr| rr.name.depth()).max()
        });
        if e.reply.as_ref().map_or(false, |r| r.answers.is_empty() && r.authority.iter().any(|rr| rr.rtype == T_NS)) {
            referrals += 1;
        }
        if q != main {
            continue;
        }
        if let Some((pdepth, ptc, pip, ptcp)) = prev {
            let tcp_retry = ptc && e.tcp && !ptcp && pip == e.dest.ip();
            if !tcp_retry {
                // the previous reply was followed as a referral
                match pdepth {
                    None => {
                        return Err(("referral-not-closer".into(), format!("question {} {} was asked again although the previous reply was no referral", q.name, q.qtype)));
                    }
                    Some(d) => {
                        if last_followed.map_or(false, |l| d <= l) {
                            return Err((
                                "referral-not-closer".into(),
                                format!("question {} {}: followed a referral to depth {d} after one to depth {}", q.name, q.qtype, last_followed.unwrap()),
                            ));
                        }
                        last_followed = Some(d);
                    }
                }
            }
        }
        let tc = e.reply.as_ref().map_or(false, |r| r.tc);
        prev = Some((referral_depth, tc, e.dest.ip(), e.tcp));
    }
    Ok(referrals)
}

impl Ord for WQ {
    fn cmp(&self, o: &Self) -> std::cmp::Ordering {
        (&self.name, self.qtype, self.qclass).cmp(&(&o.name, o.qtype, o.qclass))
    }
}
impl PartialOrd for WQ {
    fn partial_cmp(&self, o: &Self) -> Option<std::cmp::Ordering> {
        Some(self.cmp(o))
    }
}

/// Does the cache hold an unexpired NS set for a zone enclosing `qname` for
/// none of whose hosts an address of a usable family can be had: the hosts
/// inside that zone have no unexpired address in the cache any more (at least
/// one of them does have one in the authoritative data, so that fresh glue
/// from the parent would help), and the hosts outside it have no address of a
/// usable family at all.
pub fn glue_expired_before_ns(u: &Universe, cache: &SharedCache, now: u64, qname: &N, protocol: u8) -> bool {
    let snap = cache.verif_snapshot();
    let hints = u.hints_zone();
    let (use4, use6) = match protocol % 4 {
        0 => (true, false),
        3 => (false, true),
        _ => (true, true),
    };
    let usable = |t: RecordType| (t == RecordType::A && use4) || (t == RecordType::AAAA && use6);
    for z in u.zones.iter().filter(|z| !z.apex.0.is_empty() && qname.is_at_or_below(&z.apex)) {
        let hosts: Vec<N> = snap
            .entries
            .iter()
            .filter(|e| N::from_domain(&e.0) == z.apex && e.1 == RecordType::NS && e.3 > now)
            .filter_map(|e| if let RecordTypeWithData::NS { nsdname } = &e.2 { Some(N::from_domain(nsdname)) } else { None })
            .collect();
        if hosts.is_empty() {
            continue;
        }
        let exists = |h: &N| u.host(h).map_or(false, |x| (use4 && !x.v4.is_empty()) || (use6 && !x.v6.is_empty()));
        let held = |h: &N| {
            snap.entries.iter().any(|e| N::from_domain(&e.0) == *h && usable(e.1) && e.3 > now)
                || hints.recs.iter().any(|r| r.owner == *h && ((r.rtype == T_A && use4) || (r.rtype == T_AAAA && use6)))
        };
        let stuck = hosts.iter().all(|h| if h.is_at_or_below(&z.apex) { !held(h) } else { !exists(h) });
        let glue_would_help = hosts.iter().any(|h| h.is_at_or_below(&z.apex) && exists(h));
        if stuck && glue_would_help {
            return true;
        }
    }
    false
}

/// Does the cache hold an unexpired NS set for a zone enclosing `qname` none
/// of whose hosts - wherever they live - has an unexpired address of a usable
/// family in the cache or the hints?
pub fn ns_set_without_addresses(u: &Universe, cache: &SharedCache, now: u64, qname: &N, protocol: u8) -> bool {
    let snap = cache.verif_snapshot();
    let hints = u.hints_zone();
    let (use4, use6) = match protocol % 4 {
        0 => (true, false),
        3 => (false, true),
        _ => (true, true),
    };
    let usable = |t: RecordType| (t == RecordType::A && use4) || (t == RecordType::AAAA && use6);
    for z in u.zones.iter().filter(|z| !z.apex.0.is_empty() && qname.is_at_or_below(&z.apex)) {
        let hosts: Vec<N> = snap
            .entries
            .iter()
            .filter(|e| N::from_domain(&e.0) == z.apex && e.1 == RecordType::NS && e.3 > now)
            .filter_map(|e| if let RecordTypeWithData::NS { nsdname } = &e.2 { Some(N::from_domain(nsdname)) } else { None })
            .collect();
        if hosts.is_empty() {
            continue;
        }
        let held = |h: &N| {
            snap.entries.iter().any(|e| N::from_domain(&e.0) == *h && usable(e.1) && e.3 > now)
                || hints.recs.iter().any(|r| r.owner == *h && ((r.rtype == T_A && use4) || (r.rtype == T_AAAA && use6)))
        };
        if !hosts.iter().any(held) {
            return true;
        }
    }
    false
}

pub struct Sessions;

pub fn hints_zones(u: &Universe) -> Zones {
    let mut zones = Zones::new();
    zones.insert(u.hints_zone().to_impl());
    zones
}

impl Prop for Sessions {
    type Case = Case;
    fn name(&self) -> &'static str {
        "sessions"
    }
    fn tape_len(&self) -> usize {
        600
    }
    fn cases(&self, tier: Tier) -> u64 {
        tier.pick(30_000, 4_000_000)
    }
    fn generate(&self, g: &mut Gen) -> Case {
        let universe = gen_universe(
            g,
            &UniverseOpts { max_zones: 7, max_depth: 5, multi_address_hosts: true, wildcards: true, aliases: true },
        );
        let mut universe = universe;
        // sibling zones served only by a host that lives in the other one; the
        // parent hands out glue for both, which makes the pair resolvable
        if g.chance(1, 8) {
            let z = &universe.zones;
            let mut pairs = Vec::new();
            for a in 1..z.len() {
                for b in a + 1..z.len() {
                    let (pa, pb) = (z[a].apex.parent(), z[b].apex.parent());
                    if pa.is_some() && pa == pb && z[a].apex != z[b].apex {
                        pairs.push((a, b));
                    }
                }
            }
            if !pairs.is_empty() {
                let (a, b) = g.pick(&pairs);
                let (na, nb) = (universe.zones[a].apex.child(b"ns9"), universe.zones[b].apex.child(b"ns9"));
                let k = universe.hosts.len() as u8;
                for (i, n) in [na.clone(), nb.clone()].into_iter().enumerate() {
                    let mut x = [0u8; 16];
                    x[0] = 0xfd;
                    x[14] = 9;
                    x[15] = k + i as u8;
                    universe.hosts.push(UHost { name: n, v4: vec![[10, 9, k + i as u8, 53]], v6: vec![x] });
                }
                universe.zones[a].ns = vec![nb];
                universe.zones[b].ns = vec![na];
                universe.zones[a].glue_for_oob = true;
                universe.zones[b].glue_for_oob = true;
            }
        }
        let ok: Vec<u8> = (0..4u8).filter(|p| reachable(&universe, *p)).collect();
        let protocol = g.pick(&ok);
        let questions = gen_questions(g, &universe, 6);
        let advance_s = questions.iter().map(|_| g.pick(&[0u32, 0, 0, 1, 59, 60, 61, 299, 300, 301, 3600, 4000])).collect();
        Case { universe, questions, protocol, advance_s }
    }
    fn check(&self, c: &Case) -> Outcome {
        clock::set_virtual_nanos(Some(1_000_000_000));
        let u = &c.universe;
        let zones = hints_zones(u);
        let cache = SharedCache::new();
        let mock = Mock::new(universe_responder(u.clone()));
        let mode = Mode::Recursive { protocol: protocol_of(c.protocol), port: 53 };
        let mut out = Outcome::pass(false).class(format!("protocol:{}", protocol_of(c.protocol))).class(format!("zones:{}", u.zones.len()));
        let mut now_ns: u64 = 1_000_000_000;
        for (i, q) in c.questions.iter().enumerate() {
            mock.clear_log();
            // time passes between questions: cached delegations and answers age and expire
            now_ns += u64::from(c.advance_s.get(i).copied().unwrap_or(0)) * 1_000_000_000;
            clock::set_virtual_nanos(Some(now_ns));
            if c.advance_s.get(i).copied().unwrap_or(0) > 0 {
                out.classes.push("clock-advanced".into());
            }
            let t = u.truth(q);
            if t.looped {
                out.classes.push("truth-loops".into());
                continue;
            }
            let r = run_resolve(&mock, mode, &zones, &cache, &to_question(q));
            let log = mock.log();
            out.counts.push(("questions", 1));
            out.counts.push(("exchanges", log.len() as u64));
            let res = match r.result {
                Err(p) => return out.fail("resolver-panic", p),
                Ok(Err(e)) => {
                    // root-cause signature F15: the cache still holds the NS set of
                    // an enclosing zone but the addresses of all its (in-bailiwick)
                    // hosts have expired; the resolver does not go back up
                    // (judged for the name at which resolution stopped: the question
                    // name or the alias target named by the error)
                    // and for the names of the nameserver hosts that have to be
                    // looked up on the way: everything the question depends on)
                    let mut stuck_at = vec![q.name.lower()];
                    if let ResolutionError::DeadEnd { question } = &e {
                        stuck_at.push(N::from_domain(&question.name).lower());
                    }
                    for link in &t.chain {
                        if let crate::rwire::WData::Name(target) = &link.2 {
                            stuck_at.push(target.lower());
                        }
                    }
                    let mut k = 0;
                    while k < stuck_at.len() {
                        let n = stuck_at[k].clone();
                        for z in u.zones.iter().filter(|z| n.is_at_or_below(&z.apex)) {
                            for h in &z.ns {
                                if !stuck_at.contains(&h.lower()) {
                                    stuck_at.push(h.lower());
                                }
                            }
                        }
                        k += 1;
                    }
                    let mut f15 = stuck_at.iter().any(|n| glue_expired_before_ns(u, &cache, now_ns, n, c.protocol));
                    // the same root cause with nameservers outside their zone
                    // (e.g. sibling zones hosting each other): a cached NS set,
                    // none of whose hosts has a cached address left, of a zone
                    // the question depends on - and the counterfactual: with the
                    // cached NS sets dropped (that is, going back to the parents)
                    // the same question resolves correctly
                    if !f15 && stuck_at.iter().any(|n| ns_set_without_addresses(u, &cache, now_ns, n, c.protocol)) {
                        let snap = cache.verif_snapshot();
                        let fresh = SharedCache::new();
                        for en in &snap.entries {
                            if en.1 == RecordType::NS || en.3 <= now_ns {
                                continue;
                            }
                            let ttl = ((en.3 - now_ns) / 1_000_000_000).max(1) as u32;
                            fresh.insert(&ResourceRecord { name: en.0.clone(), rtype_with_data: en.2.clone(), rclass: RecordClass::IN, ttl });
                        }
                        let again = run_resolve(&mock, mode, &zones, &fresh, &to_question(q));
                        if let Ok(Ok(r2)) = &again.result {
                            if compare_with_truth(r2, &t).is_ok() {
                                f15 = true;
                            }
                        }
                    }
                    let sig = if f15 { "glue-expired-before-ns" } else { "resolution-failed" };
                    return out.fail(sig, format!("question {i} ({} {}): {e:?}; authoritative data: {:?}; exchanges: {}", q.name, q.qtype, t, describe(&log)));
                }
                Ok(Ok(r)) => r,
            };
            if let Err((s, d)) = compare_with_truth(&res, &t) {
                return out.fail(s, format!("question {i} ({} {}): {d}; exchanges: {}", q.name, q.qtype, describe(&log)));
            }
            match referrals_monotone(u, &log, q) {
                Err((s, d)) => return out.fail(s, format!("question {i}: {d}; exchanges: {}", describe(&log))),
                Ok(referrals) => {
                    let sub_lookup = log.iter().any(|e| question_of(e.request.as_ref()).map_or(false, |lq| u.hosts.iter().any(|h| h.name == lq.name.lower()) && lq.name.lower() != q.name.lower()));
                    let from_cache = i > 0 && log.len() < 2;
                    if referrals >= 2 {
                        out.classes.push("two-or-more-referrals".into());
                    }
                    if sub_lookup {
                        out.classes.push("glueless-ns-lookup".into());
                    }
                    if !t.chain.is_empty() {
                        out.classes.push("alias-chain".into());
                    }
                    if from_cache {
                        out.classes.push("answered-from-cache".into());
                    }
                    if t.name_error {
                        out.classes.push("name-error".into());
                    } else if t.finals.is_empty() {
                        out.classes.push("no-data".into());
                    }
                    if referrals >= 2 || sub_lookup || !t.chain.is_empty() || from_cache {
                        out.nontrivial = true;
                    }
                }
            }
        }
        clock::set_virtual_nanos(None);
        out
    }
}

pub fn describe(log: &[Exchange]) -> String {
    let mut s = String::new();
    for e in log.iter().take(40) {
        let q = question_of(e.request.as_ref());
        let r = e.reply.as_ref().map(describe_reply).unwrap_or_else(|| e.action.clone());
        s.push_str(&format!(
            "\n  #{} t={}ms {}{} {} -> {}",
            e.index,
            e.start_ms,
            if e.tcp { "tcp " } else { "" },
            e.dest,
            q.map_or("?".to_string(), |q| format!("{} {}", q.name, q.qtype)),
            r
        ));
    }
    s
}

fn describe_reply(m: &WMsg) -> String {
    let rr = |r: &WRR| format!("{} {} {:?}", r.name, r.rtype, r.data);
    format!(
        "rcode={} aa={} an=[{}] ns=[{}] ar=[{}]",
        m.rcode,
        m.aa,
        m.answers.iter().map(rr).collect::<Vec<_>>().join("; "),
        m.authority.iter().map(rr).collect::<Vec<_>>().join("; "),
        m.additional.iter().map(rr).collect::<Vec<_>>().join("; ")
    )
}

pub fn def() -> PropertyDef {
    PropertyDef {
        id: "C07",
        level: "exploration",
        rule: "A generated DNS universe (2..7 zones below root hints, depth <= 5, 1..3 NS hosts per zone, in-bailiwick with glue or out-of-bailiwick in an earlier zone with or without glue, one universe in eight with a pair of sibling zones each served only by a host living in the other (glue for both at the parent), hosts v4-only / v6-only / dual, sometimes two addresses per family, data incl. empty non-terminals, wildcards, CNAMEs inside and across zones, to missing names) is served by a mock transport (hook H2) whose servers answer per RFC 1034 4.3.2 computed by R-ZONE (referrals with glue, AA answers, NODATA/NXDOMAIN with SOA, CNAME with or without in-server chasing, TC over UDP above 512 octets). A case is a session of 1..6 questions (existing and missing names and types, apexes, NS host names, aliases) sharing one cache, with the cache clock (hook H1) advancing 0 s..4000 s between questions so that cached delegations and answers age and expire, in a protocol mode under which every zone is reachable. Oracle: result = ground truth computed globally (alias chain in order ++ final RRset as multiset, TTL <= authoritative, SOA of the final zone iff the final set is empty), and the zones asked about the session's question get strictly deeper (TCP retry at the same server excepted), as do those asked within one attempt at a nameserver-address look-up. Non-trivial = some question needed >= 2 referrals, a glueless NS lookup, an alias chain, or was answered from cache left by an earlier question. Distinct by hash of the case.",
        assumptions: vec![
            "consistent universes: parent NS set = child NS set, glue = real address, every server answers",
            "CNAME and ANY questions at alias names are outside the comparison (D4)",
            "order among equally good nameservers is RandomState-dependent; the oracle holds for every order",
        ],
        parts: vec![Box::new(Sessions)],
        budget_s: |t| t.pick(900, 10_800),
        needs_repo_bins: false,
    }
}

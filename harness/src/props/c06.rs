//! C06 — upstream replies are filtered: only records relevant to the
//! question are used.

use std::collections::BTreeSet;

use dns_resolver::cache::{verif as clock, SharedCache};
use dns_resolver::recursive::{verif_validate_nameserver_response, NameserverResponse};
use dns_resolver::util::types::{ProtocolMode, ResolvedRecord};
use dns_types::protocol::types::*;
use dns_types::zones::types::Zones;
use serde::{Deserialize, Serialize};

use crate::engine::{Outcome, Prop, PropertyDef, Tier};
use crate::gen::Gen;
use crate::mock::*;
use crate::rwire::{self, rr_from_impl, WData, WMsg, WQ, WRR};
use crate::rzone::*;
use crate::util::N;

/// Where a generated record's owner (or target) lies relative to the question.
#[derive(Debug, Clone, Copy, PartialEq, Eq, Hash, Serialize, Deserialize)]
pub enum Rel {
    Qname,
    /// ancestor with that many labels dropped (clamped to the root)
    Ancestor(u8),
    Sibling,
    Child,
    Unrelated(u8),
    /// a nameserver host name
    Host(u8),
    /// alias targets
    Alias(u8),
}

#[derive(Debug, Clone, PartialEq, Eq, Hash, Serialize, Deserialize)]
pub struct RrT {
    pub owner: Rel,
    /// 1 A, 28 AAAA, 2 NS, 5 CNAME, 6 SOA, 16 TXT, 99 unknown type
    pub rtype: u16,
    pub target: Rel,
    pub class_in: bool,
}

#[derive(Debug, Clone, PartialEq, Eq, Hash, Serialize, Deserialize)]
pub struct ReplyT {
    pub answers: Vec<RrT>,
    pub authority: Vec<RrT>,
    pub additional: Vec<RrT>,
    pub rcode: u8,
}

pub fn rel_name(q: &N, r: Rel) -> N {
    match r {
        Rel::Qname => q.clone(),
        Rel::Ancestor(k) => {
            let k = (k as usize).min(q.depth());
            N(q.0[k..].to_vec())
        }
        Rel::Sibling => q.parent().unwrap_or_else(N::root).child(b"sibling"),
        Rel::Child => q.child(b"child"),
        Rel::Unrelated(i) => N::parse(["evil.", "other.org.", "com.", "x.evil."][i as usize % 4]),
        Rel::Host(i) => N::parse(["ns1.good.", "ns2.good.", "ns.evil.", "ns1.example.com."][i as usize % 4]),
        Rel::Alias(i) => N::parse(["alias1.example.", "alias2.example.", "t.other.org."][i as usize % 3]),
    }
}

/// Instantiate a template for a concrete question; TTLs are unique tags.
pub fn instantiate(t: &ReplyT, q: &WQ, tag_base: u32) -> WMsg {
    let mk = |sec: u32, v: &Vec<RrT>| -> Vec<WRR> {
        v.iter()
            .enumerate()
            .map(|(i, r)| {
                let owner = rel_name(&q.name, r.owner);
                let target = rel_name(&q.name, r.target);
                let tag = tag_base + sec * 100 + i as u32;
                let data = match r.rtype {
                    1 => WData::A([203, 0, (tag >> 8) as u8, tag as u8]),
                    28 => {
                        let mut a = [0u8; 16];
                        a[0] = 0x20;
                        a[14] = (tag >> 8) as u8;
                        a[15] = tag as u8;
                        WData::Aaaa(a)
                    }
                    2 | 5 => WData::Name(target),
                    6 => WData::Soa { mname: target.clone(), rname: target, serial: tag, refresh: 1, retry: 1, expire: 1, minimum: 1 },
                    _ => WData::Opaque(format!("tag-{tag}").into_bytes()),
                };
                WRR { name: owner, rtype: r.rtype, rclass: if r.class_in { 1 } else { 3 }, ttl: tag, data }
            })
            .collect()
    };
    WMsg {
        id: 0,
        qr: true,
        opcode: 0,
        aa: true,
        tc: false,
        rd: false,
        ra: false,
        rcode: t.rcode,
        questions: vec![q.clone()],
        answers: mk(1, &t.answers),
        authority: mk(2, &t.authority),
        additional: mk(3, &t.additional),
    }
}

fn gen_rel_owner(g: &mut Gen) -> Rel {
    match g.weighted(&[5, 4, 2, 1, 3, 3, 3]) {
        0 => Rel::Qname,
        1 => Rel::Ancestor(g.range(1, 4) as u8),
        2 => Rel::Sibling,
        3 => Rel::Child,
        4 => Rel::Unrelated(g.below(4) as u8),
        5 => Rel::Host(g.below(4) as u8),
        _ => Rel::Alias(g.below(3) as u8),
    }
}

fn gen_rrt(g: &mut Gen, section: u8) -> RrT {
    let rtype = match section {
        0 => g.pick(&[1u16, 1, 28, 5, 5, 5, 2, 16, 99, 6]),
        1 => g.pick(&[2u16, 2, 2, 6, 6, 1, 5, 16]),
        _ => g.pick(&[1u16, 1, 28, 28, 2, 5, 16]),
    };
    let target = match rtype {
        5 => match g.weighted(&[4, 1, 1, 1]) {
            0 => Rel::Alias(g.below(3) as u8),
            1 => Rel::Qname,
            2 => Rel::Unrelated(g.below(4) as u8),
            _ => Rel::Sibling,
        },
        2 => Rel::Host(g.below(4) as u8),
        _ => Rel::Host(0),
    };
    RrT { owner: gen_rel_owner(g), rtype, target, class_in: !g.chance(1, 12) }
}

pub fn gen_reply(g: &mut Gen) -> ReplyT {
    ReplyT {
        answers: g.vec(0, 5, |g| gen_rrt(g, 0)),
        authority: g.vec(0, 4, |g| gen_rrt(g, 1)),
        additional: g.vec(0, 4, |g| gen_rrt(g, 2)),
        rcode: g.pick(&[0u8, 0, 0, 3]),
    }
}

/// A reply with a plausible core (so that resolution goes on) plus noise.
/// core: 1 answer at the question name, 2 referral to `Ancestor(k)` with
/// glue, 3 alias at the question name.
pub fn gen_reply_with_core(g: &mut Gen, core: u8, k: u8, qtype: u16) -> ReplyT {
    let mut r = gen_reply(g);
    r.rcode = 0;
    let host = g.below(2) as u8;
    match core {
        1 => {
            let t = if [1u16, 28, 16, 2, 5].contains(&qtype) { qtype } else { 1 };
            let at = g.below(r.answers.len() + 1);
            r.answers.insert(at, RrT { owner: Rel::Qname, rtype: t, target: Rel::Host(host), class_in: true });
            // a clean answer section decides for "answer": drop CNAMEs at the question name
            r.answers.retain(|x| !(x.rtype == 5 && x.owner == Rel::Qname));
        }
        2 => {
            r.answers.retain(|x| x.owner != Rel::Qname && x.rtype != 5);
            let owner = if k == 0 { Rel::Qname } else { Rel::Ancestor(k) };
            let at = g.below(r.authority.len() + 1);
            r.authority.insert(at, RrT { owner, rtype: 2, target: Rel::Host(host), class_in: true });
            r.additional.push(RrT { owner: Rel::Host(host), rtype: 1, target: Rel::Host(host), class_in: true });
        }
        3 => {
            r.answers.retain(|x| !(x.owner == Rel::Qname));
            let at = g.below(r.answers.len() + 1);
            r.answers.insert(at, RrT { owner: Rel::Qname, rtype: 5, target: Rel::Alias(g.below(3) as u8), class_in: true });
        }
        4 => {
            // a negative reply: nothing for the question, no referral, one SOA
            r.answers.retain(|x| x.owner != Rel::Qname && x.rtype != 5);
            r.authority.retain(|x| x.rtype != 2 && x.rtype != 6);
            let owner = if k == 0 { Rel::Qname } else { Rel::Ancestor(k) };
            r.authority.push(RrT { owner, rtype: 6, target: Rel::Host(host), class_in: true });
            if g.chance(1, 2) {
                r.rcode = 3;
            }
        }
        _ => {}
    }
    r
}

pub fn gen_question(g: &mut Gen) -> WQ {
    let name = N::parse(g.pick(&["www.a.example.com.", "example.com.", "alias1.example.", "host.sub.good.", "com."]));
    WQ { name, qtype: g.pick(&[1u16, 1, 28, 16, 2, 5, 15, 255]), qclass: 1 }
}

// --------------------------------------------------------------------------
// the validity predicate

fn type_matches(rtype: u16, qtype: u16) -> bool {
    qtype == 255 || rtype == qtype
}

/// All maximal simple alias paths from the question name through the CNAME
/// records of the answer section: (names visited, edges used).
fn alias_paths(q: &N, answers: &[WRR]) -> Vec<(Vec<N>, Vec<usize>)> {
    fn go(cur: &N, answers: &[WRR], names: &mut Vec<N>, edges: &mut Vec<usize>, out: &mut Vec<(Vec<N>, Vec<usize>)>) {
        let mut extended = false;
        for (i, rr) in answers.iter().enumerate() {
            if rr.rtype == T_CNAME && rr.name.lower() == *cur {
                if let WData::Name(t) = &rr.data {
                    let t = t.lower();
                    if names.contains(&t) {
                        continue;
                    }
                    extended = true;
                    names.push(t.clone());
                    edges.push(i);
                    go(&t, answers, names, edges, out);
                    names.pop();
                    edges.pop();
                }
            }
        }
        if !extended {
            out.push((names.clone(), edges.clone()));
        }
    }
    let mut out = Vec::new();
    let q = q.lower();
    go(&q, answers, &mut vec![q.clone()], &mut Vec::new(), &mut out);
    out
}

fn wrr_eq(a: &WRR, b: &WRR) -> bool {
    a.name.lower() == b.name.lower() && a.rtype == b.rtype && a.rclass == b.rclass && a.ttl == b.ttl && a.data == b.data
}

/// Judge what the filter produced for (question, reply, match_count).
pub fn judge_filter(q: &WQ, reply: &WMsg, match_count: usize, got: &Option<NameserverResponse>) -> Result<(), (String, String)> {
    let Some(got) = got else { return Ok(()) };
    let in_section = |rr: &WRR, sec: &[WRR]| sec.iter().any(|x| wrr_eq(x, rr));
    match got {
        NameserverResponse::Answer { rrs, soa_rr } => {
            let rows: Vec<WRR> = rrs.iter().map(rr_from_impl).collect();
            answer_like(q, reply, &rows, None)?;
            if let Some(s) = soa_rr {
                let s = rr_from_impl(s);
                if s.rtype != T_SOA || !in_section(&s, &reply.authority) {
                    return Err(("soa-not-from-authority".into(), format!("{s:?}")));
                }
                if !q.name.lower().is_at_or_below(&s.name.lower()) {
                    return Err(("soa-owner-not-ancestor".into(), format!("{s:?} for {}", q.name)));
                }
                // a server reached through a delegation of `match_count`
                // labels cannot speak for a zone above that delegation
                // (the match count counts the root label, depth() does not)
                if s.name.depth() + 1 < match_count {
                    return Err(("soa-above-delegation-in-use".into(), format!("{s:?} ({} labels) accepted at match count {match_count}", s.name.depth())));
                }
            }
            Ok(())
        }
        NameserverResponse::CNAME { rrs, cname } => {
            let rows: Vec<WRR> = rrs.iter().map(rr_from_impl).collect();
            answer_like(q, reply, &rows, Some(N::from_domain(cname)))
        }
        NameserverResponse::Delegation { rrs, delegation } => {
            let dname = N::from_domain(&delegation.name);
            if !q.name.lower().is_at_or_below(&dname) {
                return Err(("delegation-not-ancestor".into(), format!("delegation to {dname} for question {}", q.name)));
            }
            if delegation.name.labels.len() <= match_count {
                return Err(("delegation-not-deeper".into(), format!("delegation to {dname} ({} labels) at match count {match_count}", delegation.name.labels.len())));
            }
            // NS records owned by that name, anywhere in the reply
            let owned_targets: BTreeSet<N> = reply
                .answers
                .iter()
                .chain(&reply.authority)
                .chain(&reply.additional)
                .filter(|rr| rr.rtype == T_NS && rr.name.lower() == dname)
                .filter_map(|rr| if let WData::Name(t) = &rr.data { Some(t.lower()) } else { None })
                .collect();
            for h in &delegation.hostnames {
                if !owned_targets.contains(&N::from_domain(h)) {
                    return Err(("ns-foreign-owner".into(), format!("host {h} is not named by an NS record owned by {dname}")));
                }
            }
            for rr in rrs {
                let w = rr_from_impl(rr);
                let somewhere = in_section(&w, &reply.answers) || in_section(&w, &reply.authority) || in_section(&w, &reply.additional);
                if !somewhere {
                    return Err(("invented-record".into(), format!("{w:?} is not in the reply")));
                }
                match w.rtype {
                    T_NS => {
                        if w.name.lower() != dname {
                            return Err(("ns-foreign-owner".into(), format!("accepted {w:?}, but the delegation is {dname}")));
                        }
                    }
                    T_A | T_AAAA => {
                        if !owned_targets.contains(&w.name.lower()) {
                            return Err(("glue-for-unnamed-host".into(), format!("accepted {w:?}; hosts named by {dname}: {owned_targets:?}")));
                        }
                    }
                    _ => return Err(("irrelevant-record-accepted".into(), format!("{w:?} in a delegation"))),
                }
            }
            Ok(())
        }
    }
}

fn answer_like(q: &WQ, reply: &WMsg, rows: &[WRR], cname_result: Option<N>) -> Result<(), (String, String)> {
    for r in rows {
        if !reply.answers.iter().any(|x| wrr_eq(x, r)) {
            return Err(("record-not-from-answer-section".into(), format!("{r:?}")));
        }
    }
    let paths = alias_paths(&q.name, &reply.answers);
    // there must be one path on which every accepted record lies
    let mut why = String::new();
    for (names, edges) in &paths {
        let terminal = names.last().unwrap();
        let mut ok = true;
        for r in rows {
            // a record denoting a link of the path (duplicates of the same
            // link, differing in TTL only, denote the same link)
            let is_edge = r.rtype == T_CNAME
                && edges.iter().any(|i| {
                    let e = &reply.answers[*i];
                    e.name.lower() == r.name.lower() && e.data == r.data
                });
            let at_terminal = r.name.lower() == *terminal && type_matches(r.rtype, q.qtype) && (r.rtype != T_CNAME || q.qtype == T_CNAME || q.qtype == 255);
            if !(is_edge || at_terminal) {
                ok = false;
                why = format!("{r:?} is neither on the alias path {names:?} nor a record of the asked type at its end");
                break;
            }
        }
        if ok {
            if let Some(c) = &cname_result {
                if c.lower() != *terminal {
                    ok = false;
                    why = format!("told to continue at {c}, but the alias path ends at {terminal}");
                }
            }
        }
        if ok {
            return Ok(());
        }
    }
    let offpath = rows.iter().any(|r| r.rtype == T_CNAME && !paths.iter().any(|(n, _)| n.contains(&r.name.lower())));
    Err((if offpath { "offpath-cname".to_string() } else { "irrelevant-answer-record".to_string() }, why))
}

/// Records of a reply that may be used for SOME legal reading (used by the
/// end-to-end part, where the match count is not observable).
/// The answer part of `union_allowed`: alias links and records of the asked
/// type at the end of some alias path.
pub fn answer_allowed(q: &WQ, reply: &WMsg) -> Vec<WRR> {
    let mut ok: Vec<WRR> = Vec::new();
    for (names, edges) in alias_paths(&q.name, &reply.answers) {
        let terminal = names.last().unwrap();
        for i in edges {
            ok.push(reply.answers[i].clone());
        }
        for r in &reply.answers {
            if r.name.lower() == *terminal && type_matches(r.rtype, q.qtype) {
                ok.push(r.clone());
            }
        }
    }
    ok
}

pub fn union_allowed(q: &WQ, reply: &WMsg) -> Vec<WRR> {
    let mut ok: Vec<WRR> = Vec::new();
    for (names, edges) in alias_paths(&q.name, &reply.answers) {
        let terminal = names.last().unwrap();
        for i in edges {
            ok.push(reply.answers[i].clone());
        }
        for r in &reply.answers {
            if r.name.lower() == *terminal && type_matches(r.rtype, q.qtype) {
                ok.push(r.clone());
            }
        }
    }
    let qn = q.name.lower();
    let mut hosts: BTreeSet<N> = BTreeSet::new();
    for r in reply.answers.iter().chain(&reply.authority) {
        if r.rtype == T_NS && qn.is_at_or_below(&r.name.lower()) && r.name.depth() >= 1 {
            ok.push(r.clone());
            if let WData::Name(t) = &r.data {
                hosts.insert(t.lower());
            }
        }
    }
    for r in reply.answers.iter().chain(&reply.additional) {
        if (r.rtype == T_A || r.rtype == T_AAAA) && hosts.contains(&r.name.lower()) {
            ok.push(r.clone());
        }
    }
    ok
}

// --------------------------------------------------------------------------
// part 1: the filter, called directly

#[derive(Debug, Clone, PartialEq, Eq, Hash, Serialize, Deserialize)]
pub struct DirectCase {
    pub question: WQ,
    pub match_count: u8,
    pub reply: ReplyT,
}

pub struct Direct;

impl Prop for Direct {
    type Case = DirectCase;
    fn name(&self) -> &'static str {
        "filter"
    }
    fn tape_len(&self) -> usize {
        120
    }
    fn cases(&self, tier: Tier) -> u64 {
        tier.pick(300_000, 30_000_000)
    }
    fn generate(&self, g: &mut Gen) -> DirectCase {
        let question = gen_question(g);
        let match_count = g.below(question.name.depth() + 2) as u8;
        DirectCase { question, match_count, reply: gen_reply(g) }
    }
    fn check(&self, c: &DirectCase) -> Outcome {
        let reply = instantiate(&c.reply, &c.question, 1000);
        let Some(im) = rwire::to_impl(&reply) else { return Outcome::pass(false).class("not-representable") };
        let q = super::c07::to_question(&c.question);
        let got = verif_validate_nameserver_response(&q, &im, c.match_count as usize);
        let allowed = union_allowed(&c.question, &reply);
        let total = reply.answers.len() + reply.authority.len() + reply.additional.len();
        let n_allowed = reply.answers.iter().chain(&reply.authority).chain(&reply.additional).filter(|r| allowed.iter().any(|a| wrr_eq(a, r))).count();
        let mut out = Outcome::pass(n_allowed >= 1 && n_allowed < total);
        out.classes.push(match &got {
            None => "result:none".to_string(),
            Some(NameserverResponse::Answer { .. }) => "result:answer".to_string(),
            Some(NameserverResponse::CNAME { .. }) => "result:cname".to_string(),
            Some(NameserverResponse::Delegation { .. }) => "result:delegation".to_string(),
        });
        match judge_filter(&c.question, &reply, c.match_count as usize, &got) {
            Ok(()) => out,
            Err((s, d)) => out.fail(s, format!("{d}\nquestion {} {} at match count {}\nreply {:?}\nresult {:?}", c.question.name, c.question.qtype, c.match_count, reply, got)),
        }
    }
}

// --------------------------------------------------------------------------
// part 2: end to end through resolve(), then a sweep of the cache

#[derive(Debug, Clone, PartialEq, Eq, Hash, Serialize, Deserialize)]
pub struct Scripted {
    pub reply: ReplyT,
    /// 0 none, 1 wrong id, 2 QR=0, 3 opcode, 4 TC, 5 rcode 1/2/4/5/9, 6 question altered
    pub header_fault: u8,
    pub fault_detail: u8,
}

#[derive(Debug, Clone, PartialEq, Eq, Hash, Serialize, Deserialize)]
pub struct E2eCase {
    pub question: WQ,
    pub script: Vec<Scripted>,
}

pub struct EndToEnd;

fn apply_header_fault(m: &mut WMsg, s: &Scripted) {
    match s.header_fault {
        1 => m.id = m.id.wrapping_add(1 + u16::from(s.fault_detail)),
        2 => m.qr = false,
        3 => m.opcode = 1 + s.fault_detail % 15,
        4 => m.tc = true,
        5 => m.rcode = [1u8, 2, 4, 5, 9][s.fault_detail as usize % 5],
        6 => {
            match s.fault_detail % 5 {
                // no question at all / a second question after the right one
                3 => m.questions.clear(),
                4 => {
                    let extra = m.questions.first().cloned();
                    m.questions.extend(extra);
                }
                d => {
                    if let Some(q) = m.questions.first_mut() {
                        match d {
                            0 => q.name = q.name.child(b"x"),
                            1 => q.qtype = q.qtype.wrapping_add(1),
                            _ => q.qclass = 3,
                        }
                    }
                }
            }
        }
        _ => {}
    }
}

impl Prop for EndToEnd {
    type Case = E2eCase;
    fn name(&self) -> &'static str {
        "end-to-end"
    }
    fn tape_len(&self) -> usize {
        500
    }
    fn cases(&self, tier: Tier) -> u64 {
        tier.pick(60_000, 10_000_000)
    }
    fn generate(&self, g: &mut Gen) -> E2eCase {
        let question = gen_question(g);
        let depth = question.name.depth();
        let n = g.range(1, 10);
        let mut step = 0usize; // how far down the plausible cores have led
        let mut script = Vec::new();
        for _ in 0..n {
            let header_fault = if g.chance(1, 4) { g.range(1, 6) as u8 } else { 0 };
            let reply = if g.chance(3, 4) {
                if step + 1 < depth && g.chance(3, 4) {
                    // refer one level further down than before
                    let k = (depth - 1 - step) as u8;
                    if header_fault == 0 {
                        step += 1;
                    }
                    gen_reply_with_core(g, 2, k, question.qtype)
                } else {
                    let core = g.pick(&[1u8, 1, 3, 4]);
                    // the SOA of a negative reply: at, below or above the delegation in use
                    let k = if core == 4 { g.below(depth + 1) as u8 } else { 0 };
                    gen_reply_with_core(g, core, k, question.qtype)
                }
            } else {
                gen_reply(g)
            };
            script.push(Scripted { reply, header_fault, fault_detail: g.u8() });
        }
        E2eCase { question, script }
    }
    fn check(&self, c: &E2eCase) -> Outcome {
        clock::set_virtual_nanos(Some(1_000_000_000));
        // root hints: one root server, every host name of the templates resolves to the same mock
        let mut hints = ZoneModel { apex: N::root(), soa: None, recs: vec![] };
        hints.recs.push(ZRec { owner: N::root(), wild: false, rtype: T_NS, data: WData::Name(N::parse("a.rs.")), ttl: 5 });
        hints.recs.push(ZRec { owner: N::parse("a.rs."), wild: false, rtype: T_A, data: WData::A([10, 0, 0, 1]), ttl: 5 });
        let mut zones = Zones::new();
        zones.insert(hints.to_impl());
        let cache = SharedCache::new();
        let script = c.script.clone();
        let sent: std::sync::Arc<std::sync::Mutex<Vec<(WQ, WMsg, bool, std::net::IpAddr)>>> = Default::default();
        let sent2 = sent.clone();
        let mock = Mock::new(Box::new(move |ctx: &Ctx| {
            let Some(req) = ctx.request else { return Action::Silence };
            let Some(q) = req.questions.first() else { return Action::Silence };
            // TCP retries get the same script entry as the UDP attempt before them
            let udp_index = sent2.lock().unwrap().len();
            let Some(s) = script.get(udp_index) else { return Action::Fail };
            let mut m = instantiate(&s.reply, q, 1000 * (udp_index as u32 + 1));
            m.id = req.id;
            m.rd = req.rd;
            m.aa = false;
            apply_header_fault(&mut m, s);
            sent2.lock().unwrap().push((q.clone(), m.clone(), s.header_fault != 0, ctx.dest.ip()));
            Action::Reply { bytes: rwire::encode_plain(&m), delay_ms: 5, label: format!("script#{udp_index} fault={}", s.header_fault) }
        }));
        let q = super::c07::to_question(&c.question);
        let r = run_resolve(&mock, Mode::Recursive { protocol: ProtocolMode::PreferV4, port: 53 }, &zones, &cache, &q);
        clock::set_virtual_nanos(None);
        let sent = sent.lock().unwrap().clone();
        let faulty = sent.iter().filter(|s| s.2).count();
        let all_sent = sent.clone();
        let mut out = Outcome::pass(faulty >= 1 && sent.len() > faulty)
            .count("replies-sent", sent.len() as u64)
            .count("replies-with-header-fault", faulty as u64);
        let answer_rrs: Vec<WRR> = match &r.result {
            Err(p) => return out.fail("resolver-panic", p.clone()),
            Ok(Ok(ResolvedRecord::NonAuthoritative { rrs, soa_rr })) => {
                // the SOA of a negative answer: from the authority section of a
                // clean reply, for a zone enclosing the name asked of that
                // server, not above the delegation through which it was reached
                if let Some(s) = soa_rr {
                    let w = rr_from_impl(s);
                    let same = |x: &WRR| x.name.lower() == w.name.lower() && x.rtype == w.rtype && x.data == w.data;
                    match sent.iter().enumerate().find(|(_, (_, m, _, _))| m.authority.iter().any(same)) {
                        None => return out.fail("soa-not-from-authority", format!("{w:?} was in no reply's authority section")),
                        Some((_, (_, _, true, _))) => return out.fail("used-record-of-discarded-reply", format!("{w:?} came from a reply with a header fault")),
                        Some((idx, (sq, _, false, dest))) => {
                            out.classes.push("negative-answer-with-soa".into());
                            if w.rtype != T_SOA || !sq.name.lower().is_at_or_below(&w.name.lower()) {
                                return out.fail("soa-owner-not-ancestor", format!("{w:?} for {}", sq.name));
                            }
                            let in_use = delegation_depth_in_use(&sent[..idx], *dest, &sq.name.lower());
                            if w.name.depth() < in_use {
                                return out.fail("soa-above-delegation-in-use", format!("{w:?} accepted from a server reached through a delegation of depth {in_use}; question {} {}", sq.name, sq.qtype));
                            }
                        }
                    }
                }
                rrs.iter().map(rr_from_impl).collect()
            }
            Ok(Ok(other)) => return out.fail("authoritative-without-local-zone", format!("{other:?}")),
            Ok(Err(_)) => {
                out.classes.push("resolve:error".into());
                vec![]
            }
        };
        // everything in the cache and in the answer must be traceable
        let snap = cache.verif_snapshot();
        let mut used: Vec<WRR> = answer_rrs;
        for e in &snap.entries {
            let rr = ResourceRecord { name: e.0.clone(), rtype_with_data: e.2.clone(), rclass: RecordClass::IN, ttl: 0 };
            let mut w = rr_from_impl(&rr);
            // the tag (TTL) of a cached record: expiry - now, whole seconds
            w.ttl = ((e.3.saturating_sub(1_000_000_000)) / 1_000_000_000) as u32;
            used.push(w);
        }
        out.counts.push(("records-used-or-cached", used.len() as u64));
        let local = |w: &WRR| (w.name == N::parse("a.rs.") && w.rtype == T_A) || (w.name.0.is_empty() && w.rtype == T_NS && w.data == WData::Name(N::parse("a.rs.")));
        for w in &used {
            if local(w) {
                continue;
            }
            // which reply carried it? (owner, type, data, tag)
            let same = |x: &WRR| x.name.lower() == w.name.lower() && x.rtype == w.rtype && x.data == w.data && x.ttl == w.ttl;
            let src = sent.iter().enumerate().find(|(_, (_, m, _, _))| m.answers.iter().chain(&m.authority).chain(&m.additional).any(same));
            match src {
                None => return out.fail("record-from-nowhere", format!("{w:?} was in no reply")),
                Some((_, (_, _, true, _))) => return out.fail("used-record-of-discarded-reply", format!("{w:?} came from a reply with a header fault")),
                Some((idx, (sq, m, false, dest))) => {
                    // an NS record must be deeper than the delegation in use when its
                    // reply arrived: the server asked is identified by its (uniquely
                    // tagged) glue address, hence the NS records naming that host
                    if w.rtype == T_NS && !answer_allowed(sq, m).iter().any(same) {
                        let in_use = delegation_depth_in_use(&all_sent[..idx], *dest, &sq.name.lower());
                        if w.name.depth() <= in_use {
                            return out.fail("ns-not-deeper-than-delegation-in-use", format!("{w:?} accepted from a server reached through a delegation of depth {in_use}; question {} {}", sq.name, sq.qtype));
                        }
                    }
                    if !union_allowed(sq, m).iter().any(same) {
                        let offpath = w.rtype == T_CNAME;
                        let sig = if offpath { "offpath-cname" } else if w.rtype == T_NS { "ns-foreign-owner" } else { "irrelevant-record-used" };
                        return out.fail(sig, format!("{w:?} is not relevant to the question {} {} its reply answered; reply {:?}", sq.name, sq.qtype, m));
                    }
                }
            }
        }
        out
    }
}

/// Depth (number of labels, root = 0) of the delegation through which the
/// server at `dest` was reached, judged from the replies delivered before:
/// the shallowest owner, enclosing the question name, of an NS record naming
/// a host whose glue address is `dest` (0 if unknown, i.e. the root server).
fn delegation_depth_in_use(earlier: &[(WQ, WMsg, bool, std::net::IpAddr)], dest: std::net::IpAddr, qname: &N) -> usize {
    let mut hosts: Vec<N> = Vec::new();
    for (_, m, faulty, _) in earlier {
        if *faulty {
            continue;
        }
        for r in m.answers.iter().chain(&m.additional) {
            let is_dest = match (&r.data, dest) {
                (WData::A(a), std::net::IpAddr::V4(d)) => *a == d.octets(),
                (WData::Aaaa(a), std::net::IpAddr::V6(d)) => *a == d.octets(),
                _ => false,
            };
            if is_dest {
                hosts.push(r.name.lower());
            }
        }
    }
    let mut best: Option<usize> = None;
    for (_, m, faulty, _) in earlier {
        if *faulty {
            continue;
        }
        for r in m.answers.iter().chain(&m.authority) {
            if r.rtype == T_NS && qname.is_at_or_below(&r.name.lower()) {
                if let WData::Name(t) = &r.data {
                    if hosts.contains(&t.lower()) {
                        best = Some(best.map_or(r.name.depth(), |b| b.min(r.name.depth())));
                    }
                }
            }
        }
    }
    best.unwrap_or(0)
}

pub fn def() -> PropertyDef {
    PropertyDef {
        id: "C06",
        level: "exploration",
        rule: "filter: a question (5 names x 8 types), a match count 0..labels+1 and a reply of 0..5 answer, 0..4 authority and 0..4 additional records whose owners are the question name, its ancestors, a sibling, a child, unrelated names, nameserver host names or alias targets, over A/AAAA/NS/CNAME/SOA/TXT/unknown type, sometimes a non-IN class: on-path and off-path CNAMEs, duplicate CNAME owners, NS for non-ancestors or with foreign owners but selected hosts, shallower/equal/deeper NS, glue for named and unnamed hosts in every section; validate_nameserver_response (hook H3) is judged by a validity predicate: accepted answer records lie on one maximal alias path from the question name or have the asked type at its end; SOA from the authority section with an ancestor owner; a delegation is to an ancestor deeper than the match count, its hosts named by NS records it owns, its records are those NS records or addresses of those hosts. end-to-end: resolve() in recursive mode against a scripted mock (hook H2) sending 1..8 such replies, one in three with a header fault (wrong ID, QR=0, opcode, TC, rcode 1/2/4/5/9, altered question); afterwards every record in the answer and in the cache (inspection hook) must be traceable by its tag to a reply without header fault and be relevant to the question that reply answered; the SOA of a negative answer must come from the authority section of a clean reply, enclose the name asked and not lie above the delegation in use (filter part: the match count). Non-trivial: the reply holds at least one record that must be dropped and one that may be used (filter); at least one faulty and one clean reply were sent (end-to-end). Distinct by hash of the case.",
        assumptions: vec!["None (discard the reply) is always acceptable for the filter", "record class is not judged"],
        parts: vec![Box::new(Direct), Box::new(EndToEnd)],
        budget_s: |t| t.pick(900, 10_800),
        needs_repo_bins: false,
    }
}

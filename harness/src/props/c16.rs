//! C16 — domain names are always well-formed and compared case-insensitively.

use std::collections::hash_map::DefaultHasher;
use std::hash::{Hash, Hasher};
use std::str::FromStr;

use dns_resolver::cache::SharedCache;
use dns_types::hosts::types::Hosts;
use dns_types::protocol::types::*;
use dns_types::zones::types::*;
use serde::{Deserialize, Serialize};

use crate::engine::{Outcome, Prop, PropertyDef, Tier};
use crate::gen::Gen;
use crate::util::{wf_domain, N};

/// A label given by length and a fill rule (keeps replay files small).
#[derive(Debug, Clone, PartialEq, Eq, Hash, Serialize, Deserialize)]
pub struct L {
    pub len: u8,
    pub fill: u8,
}

impl L {
    /// ASCII, dot-free, non-blank octets; mixed case.
    pub fn bytes(&self) -> Vec<u8> {
        const ALPHA: &[u8] = b"aBcDeFgHiJkLmNoPqRsTuVwXyZ0123456789-_";
        (0..self.len as usize)
            .map(|j| ALPHA[(self.fill as usize * 7 + j * 3 + j / 5) % ALPHA.len()])
            .collect()
    }
    /// Any octet (for constructors which take octets rather than text).
    pub fn raw_bytes(&self) -> Vec<u8> {
        if self.fill < 160 {
            self.bytes()
        } else {
            (0..self.len as usize)
                .map(|j| (self.fill as usize * 31 + j * 89 + 7) as u8)
                .collect()
        }
    }
}

#[derive(Debug, Clone, PartialEq, Eq, Hash, Serialize, Deserialize)]
pub enum Case {
    /// `DomainName::from_labels`; `root` appends the terminal empty label.
    Labels { labels: Vec<L>, root: bool },
    /// `from_dotted_string` and `FromStr`
    Dotted { s: String },
    /// `from_relative_dotted_string`
    Relative { origin: Vec<L>, s: String },
    /// `make_subdomain_of`
    Join { sub: Vec<L>, origin: Vec<L> },
    /// wire: question i = own labels, then optionally a pointer to label
    /// `at` of question `to` (an earlier one)
    Wire { names: Vec<(Vec<L>, Option<(usize, usize)>)> },
    /// owner and RDATA names of a zone file (`$ORIGIN` + one record)
    ZoneText { origin: Vec<L>, owner: String, target: String },
    /// a name in a hosts file
    HostsText { name: String },
}

fn lens_to_labels(ls: &[L], raw: bool) -> Vec<Vec<u8>> {
    ls.iter()
        .map(|l| if raw { l.raw_bytes() } else { l.bytes() })
        .collect()
}

/// Reference judgement for a sequence of non-root labels followed by root.
fn ref_valid(labels: &[Vec<u8>]) -> bool {
    labels.iter().all(|l| !l.is_empty() && l.len() <= 63)
        && 1 + labels.iter().map(|l| 1 + l.len()).sum::<usize>() <= 255
}

fn expect_name(got: Option<DomainName>, labels: &[Vec<u8>], what: &str) -> Result<(), (String, String)> {
    let valid = ref_valid(labels);
    match got {
        Some(d) => {
            if let Err(e) = wf_domain(&d) {
                return Err(("ill-formed-name".into(), format!("{what}: {e}")));
            }
            if !valid {
                return Err((
                    "limit-not-enforced".into(),
                    format!("{what}: accepted a name violating the limits"),
                ));
            }
            let want = N(labels.iter().map(|l| l.to_ascii_lowercase()).collect());
            if N::from_domain(&d) != want {
                return Err(("wrong-name".into(), format!("{what}: got {d}, want {want}")));
            }
            Ok(())
        }
        None => {
            if valid {
                Err(("valid-name-rejected".into(), format!("{what}: rejected a valid name")))
            } else {
                Ok(())
            }
        }
    }
}

/// Reference reading of dotted text: `None` = must be rejected.
fn ref_dotted(s: &str) -> Option<Vec<Vec<u8>>> {
    if s == "." {
        return Some(vec![]);
    }
    let body = s.strip_suffix('.')?;
    let labels: Vec<Vec<u8>> = body.split('.').map(|c| c.as_bytes().to_vec()).collect();
    if ref_valid(&labels) {
        Some(labels)
    } else {
        None
    }
}

fn gen_l(g: &mut Gen) -> L {
    let len = match g.weighted(&[6, 2, 2, 2, 2, 1, 1, 4]) {
        0 => g.range(1, 8),
        1 => 1,
        2 => 62,
        3 => 63,
        4 => 64,
        5 => 0,
        6 => 65,
        _ => g.range(1, 63),
    } as u8;
    L { len, fill: g.u8() }
}

/// Label lists whose encoded length is within 3 of 255.
fn gen_near_limit(g: &mut Gen) -> Vec<L> {
    let target = g.range(250, 258); // encoded length incl. root octet
    let k = g.range(4, 6);
    let mut rest = target - 1;
    let mut out = Vec::new();
    for i in 0..k {
        let left = k - i;
        // each remaining label needs at least 2 octets
        let max = rest.saturating_sub(2 * (left - 1)).min(65);
        let len = if left == 1 {
            rest.saturating_sub(1).min(255)
        } else {
            g.range(1.min(max.saturating_sub(1)).max(1), max.saturating_sub(1).max(1))
        };
        out.push(L {
            len: len as u8,
            fill: g.u8() % 160,
        });
        rest = rest.saturating_sub(len + 1);
    }
    out
}

fn gen_labels(g: &mut Gen) -> Vec<L> {
    if g.chance(1, 3) {
        gen_near_limit(g)
    } else {
        g.vec(0, 6, gen_l)
    }
}

fn text_of(ls: &[L]) -> String {
    let mut s = String::new();
    for l in ls {
        s.push_str(std::str::from_utf8(&l.bytes()).unwrap());
        s.push('.');
    }
    s
}

fn gen_dotted(g: &mut Gen) -> String {
    let ls: Vec<L> = gen_labels(g)
        .into_iter()
        .map(|l| L {
            len: l.len,
            fill: l.fill % 160,
        })
        .collect();
    let mut s = text_of(&ls);
    match g.weighted(&[10, 3, 2, 2, 2, 1, 1]) {
        0 => {}
        1 => {
            s.pop(); // no trailing dot
        }
        2 => s.insert(0, '.'),
        3 => s.push('.'),
        4 => {
            if let Some(i) = s.find('.') {
                s.insert(i, '.');
            }
        }
        5 => s = String::new(),
        _ => {
            // a non-ASCII character counts as several octets
            let i = s.char_indices().nth(g.below(s.chars().count().max(1))).map_or(0, |x| x.0);
            s.insert(i, 'é');
        }
    }
    s
}

pub struct Construct;

impl Prop for Construct {
    type Case = Case;
    fn name(&self) -> &'static str {
        "construct"
    }
    fn tape_len(&self) -> usize {
        96
    }
    fn cases(&self, tier: Tier) -> u64 {
        tier.pick(1_000_000, 20_000_000)
    }
    fn generate(&self, g: &mut Gen) -> Case {
        match g.weighted(&[3, 3, 2, 2, 3, 2, 1]) {
            0 => Case::Labels {
                labels: gen_labels(g),
                root: !g.chance(1, 8),
            },
            1 => Case::Dotted { s: gen_dotted(g) },
            2 => {
                let origin = if g.chance(1, 4) { vec![] } else { g.vec(0, 3, gen_l) };
                let mut s = gen_dotted(g);
                if g.bool() && s.ends_with('.') {
                    s.pop();
                }
                Case::Relative { origin, s }
            }
            3 => {
                let ok = |v: Vec<L>| -> Vec<L> { v.into_iter().filter(|l| (1..=63).contains(&l.len)).collect() };
                let sub = ok(gen_labels(g));
                let origin = ok(g.vec(0, 3, gen_l));
                Case::Join { sub, origin }
            }
            4 => {
                let n = g.range(1, 4);
                let mut names = Vec::new();
                for i in 0..n {
                    let own = if g.chance(1, 3) { gen_near_limit(g) } else { g.vec(0, 4, gen_l) };
                    let own: Vec<L> = own.into_iter().filter(|l| l.len >= 1 && l.len <= 63).collect();
                    let ptr = if i > 0 && g.chance(2, 3) {
                        let to = g.below(i);
                        Some((to, g.below(5)))
                    } else {
                        None
                    };
                    names.push((own, ptr));
                }
                Case::Wire { names }
            }
            5 => {
                let origin: Vec<L> = g
                    .vec(0, 3, gen_l)
                    .into_iter()
                    .filter(|l| l.len >= 1 && l.len <= 63)
                    .collect();
                let mut owner = gen_dotted(g);
                if g.bool() && owner.ends_with('.') {
                    owner.pop();
                }
                let mut target = gen_dotted(g);
                if g.bool() && target.ends_with('.') {
                    target.pop();
                }
                Case::ZoneText { origin, owner, target }
            }
            _ => {
                let mut s = gen_dotted(g);
                if g.bool() && s.ends_with('.') {
                    s.pop();
                }
                Case::HostsText { name: s }
            }
        }
    }

    fn enumerate(&self, tier: Tier, emit: &mut dyn FnMut(Case)) {
        // all compositions of an encoded length 250..=258 into k labels of
        // 1..=64 octets (k<=4 quick, k<=5 thorough): every name at the limit
        let kmax = if tier == Tier::Thorough { 5 } else { 4 };
        for total in 250usize..=258 {
            for k in 1..=kmax {
                let body = total - 1 - k; // sum of label lengths
                let mut lens = vec![0usize; k];
                compositions(body, k, 0, &mut lens, &mut |lens| {
                    emit(Case::Labels {
                        labels: lens
                            .iter()
                            .enumerate()
                            .map(|(i, n)| L {
                                len: *n as u8,
                                fill: (i * 37 + total) as u8 % 160,
                            })
                            .collect(),
                        root: true,
                    });
                });
            }
        }
        // single labels of every length 0..=70 in every constructor
        for len in 0u8..=70 {
            let l = L { len, fill: len };
            emit(Case::Labels { labels: vec![l.clone()], root: true });
            emit(Case::Dotted { s: text_of(&[l.clone()]) });
            emit(Case::Join { sub: vec![l.clone()], origin: vec![] });
            emit(Case::HostsText { name: text_of(&[l.clone()]) });
            emit(Case::ZoneText { origin: vec![], owner: text_of(&[l.clone()]), target: text_of(&[l]) });
        }
    }
    fn exhaustive(&self, _tier: Tier) -> bool {
        true
    }

    fn check(&self, case: &Case) -> Outcome {
        let mut out = Outcome::pass(false);
        let near = |labels: &[Vec<u8>]| {
            let n = 1 + labels.iter().map(|l| 1 + l.len()).sum::<usize>();
            (252..=258).contains(&n) || labels.iter().any(|l| (60..=66).contains(&l.len()))
        };
        let res: Result<(), (String, String)> = (|| {
            match case {
                Case::Labels { labels, root } => {
                    out.classes.push("labels".into());
                    let raw = lens_to_labels(labels, true);
                    out.nontrivial = near(&raw);
                    let mut ls = Vec::new();
                    for l in &raw {
                        match Label::try_from(&l[..]) {
                            Ok(x) => ls.push(x),
                            Err(_) => {
                                if l.len() <= 63 {
                                    return Err(("valid-label-rejected".into(), format!("label of {} octets rejected", l.len())));
                                }
                                out.classes.push("label>63 rejected".into());
                                return Ok(());
                            }
                        }
                    }
                    for (x, l) in ls.iter().zip(raw.iter()) {
                        if l.len() > 63 {
                            return Err(("limit-not-enforced".into(), "label > 63 accepted".into()));
                        }
                        if x.octets()[..] != l.to_ascii_lowercase()[..] || x.len() as usize != l.len() {
                            return Err(("wrong-name".into(), "label octets changed".into()));
                        }
                    }
                    if *root {
                        ls.push(Label::new());
                        expect_name(DomainName::from_labels(ls), &raw, "from_labels")
                    } else {
                        // no terminal root label: never a name
                        match DomainName::from_labels(ls) {
                            // (a list whose last label is empty *is* rooted)
                            Some(d) if raw.last().map_or(false, |l| l.is_empty()) => {
                                wf_domain(&d).map_err(|e| ("ill-formed-name".to_string(), e))
                            }
                            Some(_) => Err(("limit-not-enforced".into(), "name without root label accepted".into())),
                            None => Ok(()),
                        }
                    }
                }
                Case::Dotted { s } => {
                    out.classes.push("dotted".into());
                    let want = ref_dotted(s);
                    out.nontrivial = want.as_ref().map_or(s.len() >= 250 || s.contains(".."), |w| near(w));
                    let a = DomainName::from_dotted_string(s);
                    let b = DomainName::from_str(s).ok();
                    if a != b {
                        return Err(("fromstr-differs".into(), "FromStr and from_dotted_string disagree".into()));
                    }
                    if s.is_empty() {
                        // unspecified: accepted as the root or rejected
                        return match a {
                            Some(d) => wf_domain(&d).map_err(|e| ("ill-formed-name".to_string(), e)),
                            None => Ok(()),
                        };
                    }
                    match (&a, &want) {
                        (Some(d), Some(w)) => {
                            expect_name(Some(d.clone()), w, "from_dotted_string")?;
                            // text round trip for ASCII labels
                            if s.is_ascii() {
                                let back = DomainName::from_dotted_string(&d.to_dotted_string());
                                if back.as_ref() != Some(d) {
                                    return Err(("dotted-roundtrip".into(), format!("{} does not read back", d.to_dotted_string())));
                                }
                            }
                            Ok(())
                        }
                        (None, None) => Ok(()),
                        (Some(d), None) => {
                            wf_domain(&d).map_err(|e| ("ill-formed-name".to_string(), e))?;
                            Err(("limit-not-enforced".into(), format!("accepted malformed dotted text {s:?}")))
                        }
                        (None, Some(_)) => Err(("valid-name-rejected".into(), format!("rejected {s:?}"))),
                    }
                }
                Case::Relative { origin, s } => {
                    out.classes.push("relative".into());
                    let o = lens_to_labels(origin, false);
                    let Some(od) = N(o.clone()).to_domain() else {
                        out.classes.push("origin-invalid".into());
                        return Ok(());
                    };
                    let got = DomainName::from_relative_dotted_string(&od, s);
                    // reference: "" = origin; trailing dot = absolute; else join
                    let want: Option<Vec<Vec<u8>>> = if s.is_empty() {
                        Some(o.clone())
                    } else if s.ends_with('.') {
                        ref_dotted(s)
                    } else {
                        let mut labels: Vec<Vec<u8>> = s.split('.').map(|c| c.as_bytes().to_vec()).collect();
                        labels.extend(o.iter().cloned());
                        if ref_valid(&labels) { Some(labels) } else { None }
                    };
                    out.nontrivial = want.as_ref().map_or(true, |w| near(w));
                    match (got, want) {
                        (Some(d), Some(w)) => expect_name(Some(d), &w, "from_relative_dotted_string"),
                        (None, None) => Ok(()),
                        (Some(d), None) => {
                            wf_domain(&d).map_err(|e| ("ill-formed-name".to_string(), e))?;
                            Err(("limit-not-enforced".into(), format!("accepted malformed relative text {s:?}")))
                        }
                        (None, Some(_)) => Err(("valid-name-rejected".into(), format!("rejected {s:?} relative to {}", N(o)))),
                    }
                }
                Case::Join { sub, origin } => {
                    out.classes.push("join".into());
                    let s = lens_to_labels(sub, true);
                    let o = lens_to_labels(origin, true);
                    let (Some(sd), Some(od)) = (N(s.clone()).to_domain(), N(o.clone()).to_domain()) else {
                        out.classes.push("operand-invalid".into());
                        return Ok(());
                    };
                    let mut all = s.clone();
                    all.extend(o.iter().cloned());
                    out.nontrivial = near(&all);
                    let got = sd.make_subdomain_of(&od);
                    if let Some(d) = &got {
                        if !d.is_subdomain_of(&od) {
                            return Err(("join-not-subdomain".into(), "joined name is not below the origin".into()));
                        }
                    }
                    expect_name(got, &all, "make_subdomain_of")
                }
                Case::Wire { names } => {
                    out.classes.push("wire".into());
                    // build the bytes and the expected expansions
                    let mut buf = vec![0u8, 7, 0, 0, 0, names.len() as u8, 0, 0, 0, 0, 0, 0];
                    let mut label_offsets: Vec<Vec<usize>> = Vec::new(); // per name: offset of each own label + terminator
                    let mut expanded: Vec<Vec<Vec<u8>>> = Vec::new();
                    for (own, ptr) in names {
                        let own_b = lens_to_labels(own, true);
                        let mut offs = Vec::new();
                        for l in &own_b {
                            offs.push(buf.len());
                            buf.push(l.len() as u8);
                            buf.extend_from_slice(l);
                        }
                        let mut exp = own_b.clone();
                        match ptr {
                            Some((to, at)) => {
                                let to_offs = &label_offsets[*to];
                                let at = (*at).min(to_offs.len() - 1);
                                offs.push(buf.len());
                                let target = to_offs[at];
                                buf.push(0xc0 | (target >> 8) as u8);
                                buf.push(target as u8);
                                // expansion = suffix of the target name from label `at`
                                let texp = &expanded[*to];
                                let own_count = to_offs.len() - 1;
                                if at < own_count {
                                    exp.extend(texp[at..].iter().cloned());
                                } else {
                                    exp.extend(texp[own_count..].iter().cloned());
                                }
                            }
                            None => {
                                offs.push(buf.len());
                                buf.push(0);
                            }
                        }
                        buf.extend_from_slice(&[0, 1, 0, 1]);
                        label_offsets.push(offs);
                        expanded.push(exp);
                    }
                    out.nontrivial = expanded.iter().any(|e| near(e)) || names.iter().any(|n| n.1.is_some());
                    let all_valid = expanded.iter().all(|e| ref_valid(e));
                    match Message::from_octets(&buf) {
                        Ok(m) => {
                            if !all_valid {
                                return Err(("limit-not-enforced".into(), "wire name over the limits accepted".into()));
                            }
                            for (q, e) in m.questions.iter().zip(expanded.iter()) {
                                expect_name(Some(q.name.clone()), e, "wire decode")?;
                            }
                            Ok(())
                        }
                        Err(_) => {
                            if all_valid {
                                Err(("valid-name-rejected".into(), "well-formed wire names rejected".into()))
                            } else {
                                Ok(())
                            }
                        }
                    }
                }
                Case::ZoneText { origin, owner, target } => {
                    out.classes.push("zone-text".into());
                    let o = lens_to_labels(origin, false);
                    if owner.is_empty() || target.is_empty() || !owner.is_ascii() || !target.is_ascii() {
                        out.classes.push("skipped-text".into());
                        return Ok(());
                    }
                    let text = format!("$ORIGIN {}\n{} 300 IN CNAME {}\n", N(o.clone()).dotted(), owner, target);
                    out.nontrivial = owner.len() > 60 || target.len() > 60;
                    if let Ok(z) = Zone::deserialise(&text) {
                        for (name, zrs) in z.all_records().iter().chain(z.all_wildcard_records().iter()) {
                            wf_domain(name).map_err(|e| ("ill-formed-name".to_string(), format!("zone owner: {e}")))?;
                            for zr in zrs {
                                if let RecordTypeWithData::CNAME { cname } = &zr.rtype_with_data {
                                    wf_domain(cname).map_err(|e| ("ill-formed-name".to_string(), format!("zone rdata: {e}")))?;
                                }
                            }
                        }
                    }
                    Ok(())
                }
                Case::HostsText { name } => {
                    out.classes.push("hosts-text".into());
                    if name.is_empty() || name.contains(|c: char| c.is_whitespace() || c == '#') {
                        out.classes.push("skipped-text".into());
                        return Ok(());
                    }
                    out.nontrivial = name.len() > 60;
                    if let Ok(h) = Hosts::deserialise(&format!("1.2.3.4 {name}\n")) {
                        for k in h.v4.keys() {
                            wf_domain(k).map_err(|e| ("ill-formed-name".to_string(), format!("hosts name: {e}")))?;
                        }
                        // reference: relative to the root
                        let want = if name.ends_with('.') { ref_dotted(name) } else { ref_dotted(&format!("{name}.")) };
                        if want.is_none() && name != "." {
                            return Err(("limit-not-enforced".into(), format!("hosts file accepted name {name:?}")));
                        }
                    }
                    Ok(())
                }
            }
        })();
        match res {
            Ok(()) => out,
            Err((sig, detail)) => out.fail(sig, detail),
        }
    }
}

fn compositions(sum: usize, k: usize, i: usize, lens: &mut Vec<usize>, f: &mut dyn FnMut(&[usize])) {
    if i == k - 1 {
        if (1..=64).contains(&sum) {
            lens[i] = sum;
            f(lens);
        }
        return;
    }
    let remaining = k - i - 1;
    for n in 1..=64usize {
        if sum < n + remaining {
            break;
        }
        if sum - n > remaining * 64 {
            continue;
        }
        lens[i] = n;
        compositions(sum - n, k, i + 1, lens, f);
    }
}

// --------------------------------------------------------------------------
// metamorphic part: ASCII case never matters

#[derive(Debug, Clone, PartialEq, Eq, Hash, Serialize, Deserialize)]
pub struct FlipCase {
    pub a: Vec<L>,
    /// bit i of word j flips the case of octet i of label j
    pub flips: Vec<u64>,
    pub other: Vec<L>,
    pub zone_apex_depth: usize,
}

pub struct CaseFlip;

fn flip(labels: &[Vec<u8>], flips: &[u64]) -> Vec<Vec<u8>> {
    labels
        .iter()
        .enumerate()
        .map(|(j, l)| {
            let w = flips.get(j).copied().unwrap_or(0);
            l.iter()
                .enumerate()
                .map(|(i, b)| {
                    if w >> (i % 64) & 1 == 1 && b.is_ascii_alphabetic() {
                        b ^ 0x20
                    } else {
                        *b
                    }
                })
                .collect()
        })
        .collect()
}

fn hash_dom(d: &DomainName) -> u64 {
    let mut h = DefaultHasher::new();
    d.hash(&mut h);
    h.finish()
}

impl Prop for CaseFlip {
    type Case = FlipCase;
    fn name(&self) -> &'static str {
        "caseflip"
    }
    fn tape_len(&self) -> usize {
        64
    }
    fn cases(&self, tier: Tier) -> u64 {
        tier.pick(200_000, 4_000_000)
    }
    fn generate(&self, g: &mut Gen) -> FlipCase {
        let a: Vec<L> = g
            .vec(0, 5, gen_l)
            .into_iter()
            .filter(|l| (1..=63).contains(&l.len))
            .map(|l| L { len: l.len.min(40), fill: l.fill })
            .collect();
        let flips = (0..a.len()).map(|_| u64::from(g.u32()) << 32 | u64::from(g.u32())).collect();
        let other: Vec<L> = if g.chance(1, 2) {
            // a suffix or near-suffix of a
            let k = g.below(a.len() + 1);
            a[k..].to_vec()
        } else {
            g.vec(0, 3, gen_l).into_iter().filter(|l| (1..=63).contains(&l.len)).map(|l| L { len: l.len.min(40), fill: l.fill }).collect()
        };
        let zone_apex_depth = g.below(a.len() + 1);
        FlipCase { a, flips, other, zone_apex_depth }
    }
    fn check(&self, c: &FlipCase) -> Outcome {
        let la = lens_to_labels(&c.a, true);
        let lb = flip(&la, &c.flips);
        let lo = lens_to_labels(&c.other, true);
        let differs = la != lb;
        let mut out = Outcome::pass(differs).class(if differs { "case-differs" } else { "same-case" });
        let (Some(a), Some(b), Some(o)) = (N(la.clone()).to_domain(), N(lb.clone()).to_domain(), N(lo.clone()).to_domain()) else {
            return out.class("invalid-name");
        };
        if a != b || a.cmp(&b) != std::cmp::Ordering::Equal {
            return out.fail("case-sensitive-eq", format!("{a} != {b}"));
        }
        if hash_dom(&a) != hash_dom(&b) {
            return out.fail("case-sensitive-hash", format!("{a} / {b}"));
        }
        // subdomain relation = label-wise suffix (independent computation)
        let want = N(la.clone()).is_at_or_below(&N(lo.clone()));
        if a.is_subdomain_of(&o) != want || b.is_subdomain_of(&o) != want {
            return out.fail("subdomain-relation", format!("{a} below {o}: expected {want}"));
        }
        if want {
            out.classes.push("is-subdomain".into());
        }
        // zone selection and lookup
        let apex_labels = la[la.len() - c.zone_apex_depth.min(la.len())..].to_vec();
        let apex = N(apex_labels).dom();
        let mut zone = Zone::new(apex.clone(), None);
        zone.insert(&a, RecordTypeWithData::A { address: std::net::Ipv4Addr::new(10, 0, 0, 1) }, 60);
        let mut zones = Zones::new();
        zones.insert(zone);
        let za = zones.get(&a).map(|z| z.get_apex().clone());
        let zb = zones.get(&b).map(|z| z.get_apex().clone());
        if za != zb || za.is_none() {
            return out.fail("case-sensitive-zone-select", format!("{a}: {za:?} vs {zb:?}"));
        }
        let qa = zones.resolve(&a, QueryType::Record(RecordType::A)).map(|x| x.1);
        let qb = zones.resolve(&b, QueryType::Record(RecordType::A)).map(|x| x.1);
        if qa != qb || !matches!(qa, Some(ZoneResult::Answer { ref rrs }) if rrs.len() == 1) {
            return out.fail("case-sensitive-zone-lookup", format!("{a}: {qa:?} vs {qb:?}"));
        }
        // cache
        let cache = SharedCache::new();
        cache.insert(&crate::util::a_rr(&a, [10, 0, 0, 2], 300));
        let got = cache.get(&b, QueryType::Record(RecordType::A));
        if got.len() != 1 {
            return out.fail("case-sensitive-cache", format!("inserted {a}, looked up {b}: {} records", got.len()));
        }
        out
    }
}

pub fn def() -> PropertyDef {
    PropertyDef {
        id: "C16",
        level: "exploration",
        rule: "construct: inputs for every DomainName constructor (from_labels, from_dotted_string/FromStr, from_relative_dotted_string, make_subdomain_of, wire decode with 0..3 pointers, zone-file and hosts-file names) generated from a choice tape, plus an exhaustive enumeration of all label-length compositions with encoded length 250..258 (k<=4 labels quick, k<=5 thorough) and of single labels of 0..70 octets; non-trivial = encoded length within 3 of 255 or a label within 3 of 63 or a wire pointer. caseflip: a name and a random ASCII-case flip of it; non-trivial = the two spellings differ. Distinct = distinct by hash of the case.",
        assumptions: vec![
            "labels in text constructors are ASCII, dot-free (the property's round-trip clause is restricted to those)",
            "the empty string given to from_dotted_string may be read as the root or rejected (unspecified)",
        ],
        parts: vec![Box::new(Construct), Box::new(CaseFlip)],
        budget_s: |t| t.pick(600, 7200),
        needs_repo_bins: false,
    }
}

//! C10 — CNAME chains are returned whole, in order, and loops end safely.

use std::net::SocketAddr;

use dns_resolver::cache::{verif as clock, SharedCache};
use dns_resolver::util::types::{ProtocolMode, ResolvedRecord};
use dns_types::protocol::types::*;
use dns_types::zones::types::Zones;
use serde::{Deserialize, Serialize};

use super::c07::to_question;
use crate::engine::{Outcome, Prop, PropertyDef, Tier};
use crate::gen::Gen;
use crate::mock::*;
use crate::rwire::{rr_from_impl, rr_to_impl, WData, WMsg, WQ, WRR};
use crate::rzone::*;
use crate::universe::*;
use crate::util::N;

#[derive(Debug, Clone, Copy, PartialEq, Eq, Hash, Serialize, Deserialize)]
pub enum Src {
    /// authoritative local zone `auth.test.`
    Auth,
    /// the same zone, but the link is a wildcard CNAME matched two labels deep
    AuthWild,
    /// non-authoritative local root zone (names under `local.`)
    NonAuth,
    /// pre-seeded cache (names under `cached.`)
    Cache,
    /// upstream authoritative server (names under `up.`)
    Upstream,
    /// the forwarder's knowledge (names under `fwd.`)
    Forwarder,
}

#[derive(Debug, Clone, Copy, PartialEq, Eq, Hash, Serialize, Deserialize)]
pub enum Terminal {
    Data,
    NoData,
    Missing,
    /// the source that would know does not answer
    Unreachable,
}

#[derive(Debug, Clone, PartialEq, Eq, Hash, Serialize, Deserialize)]
pub struct Case {
    /// source of link i (owner = node i, target = node i+1)
    pub links: Vec<Src>,
    pub terminal_src: Src,
    pub terminal: Terminal,
    /// the last link points back at node `j` instead of the terminal node
    pub back_edge: Option<u8>,
    pub qtype: u16,
    /// 0 local only, 1 recursive, 2 forwarding
    pub mode: u8,
    pub upstream_chases: bool,
    /// question class: 1 (IN) or 255 (ANY; the records are class IN all the same)
    #[serde(default = "class_in")]
    pub qclass: u16,
}

fn class_in() -> u16 {
    1
}

fn space(s: Src) -> &'static str {
    match s {
        Src::Auth | Src::AuthWild => "auth.test.",
        Src::NonAuth => "local.",
        Src::Cache => "cached.",
        Src::Upstream => "up.",
        Src::Forwarder => "fwd.",
    }
}

impl Case {
    pub fn node(&self, i: usize) -> N {
        let s = if i < self.links.len() { self.links[i] } else { self.terminal_src };
        if s == Src::AuthWild && i < self.links.len() {
            // matched by `*.w<i>.auth.test.`, two labels in place of the `*`
            return N::parse(&format!("deep.er.w{i}.auth.test."));
        }
        N::parse(&format!("c{i}.{}", space(s)))
    }
    pub fn target_of_link(&self, i: usize) -> N {
        if i + 1 == self.links.len() {
            if let Some(j) = self.back_edge {
                return self.node((j as usize).min(self.links.len() - 1));
            }
        }
        self.node(i + 1)
    }
    pub fn link_rr(&self, i: usize) -> WRR {
        WRR { name: self.node(i), rtype: T_CNAME, rclass: 1, ttl: 1000 + i as u32, data: WData::Name(self.target_of_link(i)) }
    }
    pub fn final_rrs(&self) -> Vec<WRR> {
        if self.terminal != Terminal::Data {
            return vec![];
        }
        let name = self.node(self.links.len());
        (0..2u32)
            .map(|j| WRR {
                name: name.clone(),
                rtype: self.qtype,
                rclass: 1,
                ttl: 2000 + j,
                data: match self.qtype {
                    T_A => WData::A([198, 51, 100, j as u8]),
                    T_AAAA => {
                        let mut a = [0u8; 16];
                        a[0] = 0x20;
                        a[15] = j as u8;
                        WData::Aaaa(a)
                    }
                    T_MX => WData::Mx(j as u16, N::parse("mx.example.")),
                    _ => WData::Opaque(format!("final-{j}").into_bytes()),
                },
            })
            .collect()
    }
    fn obtainable(&self, s: Src) -> bool {
        match s {
            Src::Auth | Src::AuthWild | Src::NonAuth | Src::Cache => true,
            Src::Upstream => self.mode == 1,
            Src::Forwarder => self.mode == 2,
        }
    }
}

pub struct Chains;

fn gen_src(g: &mut Gen, mode: u8) -> Src {
    let last = match mode {
        1 => Src::Upstream,
        2 => Src::Forwarder,
        _ => Src::Cache,
    };
    match g.weighted(&[3, 2, 3, 4, 1]) {
        4 => Src::AuthWild,
        0 => Src::Auth,
        1 => Src::NonAuth,
        2 => Src::Cache,
        _ => last,
    }
}

impl Prop for Chains {
    type Case = Case;
    fn name(&self) -> &'static str {
        "chains"
    }
    fn tape_len(&self) -> usize {
        120
    }
    fn cases(&self, tier: Tier) -> u64 {
        tier.pick(100_000, 12_000_000)
    }
    fn generate(&self, g: &mut Gen) -> Case {
        let mode = g.below(3) as u8;
        let len = match g.weighted(&[1, 5, 3, 2, 1]) {
            0 => 0,
            1 => g.range(1, 6),
            2 => g.range(7, 24),
            3 => g.range(25, 34),
            _ => g.range(35, 40),
        };
        let mut links: Vec<Src> = Vec::new();
        let mut sticky: Option<Src> = None;
        for _ in 0..len {
            let s = match sticky {
                Some(s) => s,
                None => gen_src(g, mode),
            };
            // whatever a forwarder resolves, it resolves to the end
            if s == Src::Forwarder {
                sticky = Some(Src::Forwarder);
            }
            // mostly runs of the same source, so that long chains exist in every source
            links.push(s);
            if sticky.is_none() && g.chance(2, 3) {
                // keep the source for the next link too
                let keep = s;
                if g.chance(1, 2) {
                    links.push(keep);
                }
            }
        }
        links.truncate(len);
        let terminal_src = match sticky {
            Some(s) => s,
            None => {
                if g.chance(1, 8) {
                    // a source that cannot be reached in this mode
                    if mode == 1 { Src::Forwarder } else { Src::Upstream }
                } else {
                    gen_src(g, mode)
                }
            }
        };
        let terminal = match g.weighted(&[6, 2, 2, 1]) {
            0 => Terminal::Data,
            1 => Terminal::NoData,
            2 => Terminal::Missing,
            _ => Terminal::Unreachable,
        };
        // the end of the chain is an ordinary name
        let terminal_src = if terminal_src == Src::AuthWild { Src::Auth } else { terminal_src };
        let back_edge = if !links.is_empty() && g.chance(1, 6) { Some(g.below(links.len()) as u8) } else { None };
        Case { links, terminal_src, terminal, back_edge, qtype: g.pick(&[T_A, T_AAAA, T_TXT, T_MX]), mode, upstream_chases: g.bool(), qclass: if g.chance(1, 6) { 255 } else { 1 } }
    }

    fn check(&self, c: &Case) -> Outcome {
        clock::set_virtual_nanos(Some(1_000_000_000));
        let k = c.links.len();
        let qname = c.node(0);
        // --- place every link and the terminal data in its source
        let mut auth = ZoneModel {
            apex: N::parse("auth.test."),
            soa: Some(SoaM { mname: N::parse("ns.auth.test."), rname: N::parse("h.auth.test."), serial: 1, refresh: 1, retry: 1, expire: 1, minimum: 1 }),
            recs: vec![],
        };
        let mut local = ZoneModel { apex: N::root(), soa: None, recs: vec![] };
        local.recs.push(ZRec { owner: N::root(), wild: false, rtype: T_NS, data: WData::Name(N::parse("a.rs.")), ttl: 5 });
        local.recs.push(ZRec { owner: N::parse("a.rs."), wild: false, rtype: T_A, data: WData::A([10, 0, 0, 1]), ttl: 5 });
        let cache = SharedCache::new();
        let mut up = UZone {
            apex: N::root(),
            soa: SoaM { mname: N::parse("a.rs."), rname: N::parse("h.rs."), serial: 1, refresh: 1, retry: 1, expire: 1, minimum: 1 },
            ns: vec![N::parse("a.rs.")],
            recs: vec![],
            glue_for_oob: false,
            chases: c.upstream_chases,
            extra_sections: false,
            ns_ttl: 5,
            glue_families: 0,
        };
        let mut place = |src: Src, rr: &WRR| {
            let z = ZRec { owner: rr.name.clone(), wild: false, rtype: rr.rtype, data: rr.data.clone(), ttl: rr.ttl };
            match src {
                Src::Auth => auth.recs.push(z),
                Src::AuthWild => {
                    // owner of the stored record: the wildcard's parent (drop "deep.er")
                    let parent = N(rr.name.0[2..].to_vec());
                    auth.recs.push(ZRec { owner: parent, wild: true, ..z })
                }
                Src::NonAuth => local.recs.push(z),
                Src::Cache => cache.insert(&rr_to_impl(rr).unwrap()),
                Src::Upstream | Src::Forwarder => up.recs.push(z),
            }
        };
        for i in 0..k {
            place(c.links[i], &c.link_rr(i));
        }
        let terminal_name = c.node(k);
        match c.terminal {
            Terminal::Data => {
                for rr in c.final_rrs() {
                    place(c.terminal_src, &rr);
                }
                // another type at the same name must not leak into the answer
                let other = if c.qtype == T_TXT { T_A } else { T_TXT };
                let data = if other == T_A { WData::A([198, 51, 100, 99]) } else { WData::Opaque(b"other-type".to_vec()) };
                place(c.terminal_src, &WRR { name: terminal_name.clone(), rtype: other, rclass: 1, ttl: 2999, data });
            }
            Terminal::NoData => {
                let other = if c.qtype == T_TXT { T_A } else { T_TXT };
                let data = if other == T_A { WData::A([198, 51, 100, 99]) } else { WData::Opaque(b"other-type".to_vec()) };
                place(c.terminal_src, &WRR { name: terminal_name.clone(), rtype: other, rclass: 1, ttl: 2999, data });
            }
            _ => {}
        }
        let universe = Universe { zones: vec![up], hosts: vec![UHost { name: N::parse("a.rs."), v4: vec![[10, 0, 0, 1]], v6: vec![] }], unserved: vec![] };
        let mut zones = Zones::new();
        zones.insert(auth.to_impl());
        zones.insert(local.to_impl());

        // --- upstream behaviour
        let unreachable = c.terminal == Terminal::Unreachable;
        let tn = terminal_name.clone();
        let u2 = universe.clone();
        let forwarding = c.mode == 2;
        let mock = Mock::new(Box::new(move |ctx: &Ctx| {
            let Some(req) = ctx.request else { return Action::Silence };
            let Some(q) = req.questions.first() else { return Action::Silence };
            if unreachable && q.name.lower() == tn {
                return Action::Silence;
            }
            if forwarding {
                // a full resolver: the chain as far as it knows, and the end of it
                let t = u2.truth(q);
                let row = |r: &RRow| WRR { name: r.0.clone(), rtype: r.1, rclass: 1, ttl: r.3, data: r.2.clone() };
                let m = WMsg {
                    id: 0, qr: true, opcode: 0, aa: false, tc: false, rd: true, ra: true,
                    rcode: if t.name_error { 3 } else { 0 },
                    questions: vec![q.clone()],
                    answers: t.chain.iter().chain(t.finals.iter()).map(row).collect(),
                    authority: t.soa.into_iter().collect(),
                    additional: vec![],
                };
                return Action::Reply { bytes: wire_reply(m, req, ctx.tcp), delay_ms: 10, label: "forwarder".into() };
            }
            match u2.serve(ctx.dest.ip(), q) {
                None => Action::Silence,
                Some(m) => Action::Reply { bytes: wire_reply(m, req, ctx.tcp), delay_ms: 10, label: "upstream".into() },
            }
        }));
        let mode = match c.mode {
            0 => Mode::Local,
            1 => Mode::Recursive { protocol: ProtocolMode::OnlyV4, port: 53 },
            _ => Mode::Forwarding { address: "192.0.2.53:53".parse::<SocketAddr>().unwrap() },
        };
        let q = WQ { name: qname.clone(), qtype: c.qtype, qclass: c.qclass };
        let r = run_resolve(&mock, mode, &zones, &cache, &to_question(&q));
        clock::set_virtual_nanos(None);

        // --- classification
        let cyclic = c.back_edge.is_some();
        let all_obtainable = c.links.iter().all(|s| c.obtainable(*s));
        let terminal_ok = c.terminal != Terminal::Unreachable && c.obtainable(c.terminal_src);
        let complete_expected = !cyclic && k <= 24 && all_obtainable && terminal_ok;
        let distinct_sources = { let mut v = c.links.clone(); v.sort_by_key(|s| *s as u8); v.dedup(); v.len() };
        let mut out = Outcome::pass((k >= 2 && distinct_sources >= 2) || cyclic || k >= 30)
            .class(format!("mode:{}", c.mode))
            .class(if cyclic { "cyclic" } else if k > 31 { "longer-than-limit" } else if complete_expected { "complete-expected" } else { "partial-allowed" })
            .class(format!("len:{}", match k { 0 => "0", 1..=6 => "1-6", 7..=24 => "7-24", 25..=31 => "25-31", _ => "32+" }));
        if r.elapsed_ms > 60_001 {
            return out.fail("over-time-budget", format!("took {} virtual ms", r.elapsed_ms));
        }
        let res = match r.result {
            Err(p) => return out.fail("resolver-panic", p),
            Ok(Err(e)) => {
                out.classes.push("result:error".into());
                // an error is a fine answer when there is nothing to return:
                // only a chain that ends in data must come back
                if complete_expected && c.terminal == Terminal::Data {
                    return out.fail("chain-not-resolved", format!("{e:?} for an acyclic chain of {k} obtainable links; exchanges: {}", super::c07::describe(&mock.log())));
                }
                return out;
            }
            Ok(Ok(r)) => r,
        };
        let rows: Vec<WRR> = match &res {
            ResolvedRecord::Authoritative { rrs, .. } | ResolvedRecord::NonAuthoritative { rrs, .. } => rrs.iter().map(rr_from_impl).collect(),
            ResolvedRecord::AuthoritativeNameError { .. } => vec![],
        };
        // no record twice
        for (i, a) in rows.iter().enumerate() {
            if rows[..i].iter().any(|b| b == a) {
                return out.fail("repeated-record", format!("{a:?} appears twice in {rows:?}"));
            }
        }
        // the CNAME part: a prefix of the real chain, in order
        let m = rows.iter().take_while(|r| r.rtype == T_CNAME).count();
        let same = |a: &WRR, b: &WRR| a.name.lower() == b.name.lower() && a.rtype == b.rtype && a.data == b.data && a.ttl <= b.ttl;
        if m > k {
            return out.fail("invented-alias", format!("{m} CNAME records for a chain of {k} links: {rows:?}"));
        }
        for i in 0..m {
            if !same(&rows[i], &c.link_rr(i)) {
                return out.fail("chain-out-of-order", format!("record {i} is {:?}, link {i} of the chain is {:?}; answer {rows:?}", rows[i], c.link_rr(i)));
            }
        }
        if m == 0 && k > 0 && !rows.is_empty() {
            return out.fail("chain-does-not-start-at-qname", format!("{rows:?}"));
        }
        // the rest: records of the asked type owned by the end of the chain
        let finals = &rows[m..];
        if !finals.is_empty() {
            if m != k || cyclic {
                return out.fail("data-before-chain-end", format!("final records after {m} of {k} links: {rows:?}"));
            }
            let want = c.final_rrs();
            for f in finals {
                if !want.iter().any(|w| same(f, w)) {
                    return out.fail("wrong-final-record", format!("{f:?} is not a record of type {} at {terminal_name}: {rows:?}", c.qtype));
                }
            }
        }
        if complete_expected {
            let want = c.final_rrs();
            if m != k || finals.len() != want.len() {
                return out.fail("chain-incomplete", format!("{m} of {k} links and {} of {} final records returned: {rows:?}; exchanges: {}", finals.len(), want.len(), super::c07::describe(&mock.log())));
            }
            out.classes.push("result:complete".into());
        } else {
            out.classes.push(if m == k && !cyclic { "result:complete".into() } else { "result:prefix".into() });
        }
        out
    }
}

pub fn def() -> PropertyDef {
    PropertyDef {
        id: "C10",
        level: "exploration",
        rule: "An alias graph: a chain of 0..40 links, each link placed in an authoritative local zone, the non-authoritative local zone, the pre-seeded cache, an upstream authoritative server (recursive mode) or the forwarder (forwarding mode; everything after a forwarder link is the forwarder's too); optionally the last link points back into the chain (cycle); the end of the chain has data of the asked type (plus another type), no data, does not exist, or its source is silent / not reachable in the mode; question types A, AAAA, TXT, MX, question class IN or (1 in 6) ANY; modes local-only, recursive, forwarding; upstream servers with and without in-server chasing. Every link and final record carries a unique TTL tag. Oracle: the answer is c1..cm ++ finals with ci = link i of the real chain (owner, target, tag; so owners chain up and are distinct), finals only after the whole chain, all of the asked type at the final target, nothing twice; acyclic chains of <= 24 links whose links and end are all obtainable in the mode come back complete; cycles and longer chains give an error or a proper prefix; no panic; virtual time <= 60 s; runs on a 2 MiB thread. Non-trivial = at least two links from two sources, a cycle, or >= 30 links. Distinct by hash of the case.",
        assumptions: vec!["upstream replies list chains in chain order (D3)", "question types CNAME and ANY are excluded (D4)"],
        parts: vec![Box::new(Chains)],
        budget_s: |t| t.pick(900, 10_800),
        needs_repo_bins: false,
    }
}

//! C05 — the cache never serves a record past its TTL.

use crate::cachemodel::*;
use crate::engine::{Outcome, Prop, PropertyDef, Tier};
use crate::gen::Gen;

pub struct Histories;

impl Prop for Histories {
    type Case = History;
    fn name(&self) -> &'static str {
        "histories"
    }
    fn tape_len(&self) -> usize {
        400
    }
    fn cases(&self, tier: Tier) -> u64 {
        tier.pick(40_000, 2_000_000)
    }
    fn generate(&self, g: &mut Gen) -> History {
        gen_history(
            g,
            &HistoryOpts {
                max_ops: 80,
                weights: [6, 5, 2, 1, 1, 4],
                max_size: 12,
            },
        )
    }
    fn check(&self, h: &History) -> Outcome {
        let (findings, stats) = run_history(h);
        let mut out = Outcome::pass(stats.gets_after_advance > 0)
            .count("ops", h.ops.len() as u64)
            .count("lookups", stats.lookups)
            .count("lookups-with-hits", stats.hits)
            .count("hits-after-time-passed", stats.gets_after_advance)
            .count("re-inserts", stats.reinserts);
        out.classes.push(if h.plain_cache { "plain-cache".into() } else { "shared-cache".into() });
        if stats.reinserts > 0 {
            out.classes.push("has-reinsert".into());
        }
        for (fam, sig, detail) in findings {
            if fam == "ttl" {
                return out.fail(sig, detail);
            }
        }
        out
    }
}

pub fn def() -> PropertyDef {
    PropertyDef {
        id: "C05",
        level: "exploration",
        rule: "Histories of 1..80 operations over 4 names x 4 types x 3 values on the virtual clock (hook H1): insert with TTL in {0,1,2,5,300,u32::MAX}, re-insert, lookup by type, ANY lookup, unchecked lookup, prune, advance by {1 ns, 1 ms, 999 ms, 1 s, ttl-1 ms, ttl, ttl+1 ms, 1 h}; against SharedCache (5/6) or Cache (1/6). Oracle: a map (name,type,data) -> expiry; after every lookup each returned record is in the model, unexpired, data unchanged, reported TTL <= time left, and every model record with >= 1 s left is returned exactly once; after every operation the stored set read through the inspection hook (H4) equals the model (nothing lost, resurrected, duplicated or re-timed); TTL-0 inserts leave the shared cache unchanged. Non-trivial = some lookup returned a record after time had passed since its insertion; distinct by hash of the history.",
        assumptions: vec![
            "records with 0 < remaining < 1 s may or may not be returned (the cache reports whole seconds)",
            "eviction by prune is validated by C15 and then adopted by the model",
        ],
        parts: vec![Box::new(Histories)],
        budget_s: |t| t.pick(600, 7200),
        needs_repo_bins: false,
    }
}

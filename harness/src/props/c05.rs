//! C05 — the cache never serves a record past its TTL.

use crate::cachemodel::*;
use crate::engine::{Outcome, Prop, PropertyDef, Tier};
use crate::gen::Gen;

pub struct Histories;

impl Prop for Histories {
    type Case = History;
    fn name(&self) -> &'static str {
        "histories"
    }
    fn tape_len(&self) -> usize {
        400
    }
    fn cases(&self, tier: Tier) -> u64 {
        tier.pick(150_000, 10_000_000)
    }
    fn generate(&self, g: &mut Gen) -> History {
        gen_history(
            g,
            &HistoryOpts {
                max_ops: 80,
                weights: [6, 5, 2, 1, 1, 4],
                max_size: 12,
            },
        )
    }
    fn check(&self, h: &History) -> Outcome {
        let (findings, stats) = run_history(h);
        let mut out = Outcome::pass(stats.gets_after_advance > 0)
            .count("ops", h.ops.len() as u64)
            .count("lookups", stats.lookups)
            .count("lookups-with-hits", stats.hits)
            .count("hits-after-time-passed", stats.gets_after_advance)
            .count("re-inserts", stats.reinserts);
        out.classes.push(if h.plain_cache { "plain-cache".into() } else { "shared-cache".into() });
        if stats.reinserts > 0 {
            out.classes.push("has-reinsert".into());
        }
        for (fam, sig, detail) in findings {
            if fam == "ttl" {
                return out.fail(sig, detail);
            }
        }
        out
    }
}

/// Resolver level: a record learnt from upstream must not be answered once
/// its TTL has passed, even though upstream has changed meanwhile.
#[derive(Debug, Clone, PartialEq, Eq, Hash, serde::Serialize, serde::Deserialize)]
pub struct ResolverCase {
    pub ttl: u32,
    /// how long before expiry the second question is asked (ms, 1..=ttl*1000-1)
    pub before_expiry_ms: u32,
    /// how long after expiry the third question is asked (ms, >= 0)
    pub after_expiry_ms: u32,
    pub prune_between: bool,
    pub forwarding: bool,
    pub qtype: u16,
}

pub struct ResolverLevel;

impl Prop for ResolverLevel {
    type Case = ResolverCase;
    fn name(&self) -> &'static str {
        "resolver-level"
    }
    fn tape_len(&self) -> usize {
        16
    }
    fn cases(&self, tier: Tier) -> u64 {
        tier.pick(6_000, 300_000)
    }
    fn generate(&self, g: &mut Gen) -> ResolverCase {
        let ttl = g.pick(&[1u32, 2, 5, 60, 300]);
        ResolverCase {
            ttl,
            before_expiry_ms: g.pick(&[1u32, 500, 999, 1000, 1001, 1500]).min(ttl * 1000 - 1).max(1),
            after_expiry_ms: g.pick(&[0u32, 1, 999, 1000, 60_000]),
            prune_between: g.bool(),
            forwarding: g.chance(1, 3),
            qtype: g.pick(&[1u16, 16]),
        }
    }
    fn check(&self, c: &ResolverCase) -> Outcome {
        use crate::mock::*;
        use crate::rwire::{rr_from_impl, WData, WMsg, WRR};
        use crate::rzone::{ZRec, ZoneModel, T_A, T_NS};
        use crate::util::N;
        use dns_resolver::cache::{verif as clock, SharedCache};
        use dns_resolver::util::types::{ProtocolMode, ResolvedRecord};
        use std::sync::atomic::{AtomicU32, Ordering};
        use std::sync::Arc;

        let version = Arc::new(AtomicU32::new(1));
        let v2 = version.clone();
        let (ttl, qtype, forwarding) = (c.ttl, c.qtype, c.forwarding);
        let name = N::parse("www.x.");
        let n2 = name.clone();
        let mock = Mock::new(Box::new(move |ctx: &Ctx| {
            let Some(req) = ctx.request else { return Action::Silence };
            let Some(q) = req.questions.first() else { return Action::Silence };
            let v = v2.load(Ordering::SeqCst);
            let data = if qtype == 1 { WData::A([198, 51, 100, v as u8]) } else { WData::Opaque(format!("version-{v}").into_bytes()) };
            let answers = if q.name.lower() == n2 && q.qtype == qtype { vec![WRR { name: n2.clone(), rtype: qtype, rclass: 1, ttl, data }] } else { vec![] };
            let m = WMsg { id: 0, qr: true, opcode: 0, aa: !forwarding, tc: false, rd: req.rd, ra: forwarding, rcode: 0, questions: vec![q.clone()], answers, authority: vec![], additional: vec![] };
            Action::Reply { bytes: wire_reply(m, req, ctx.tcp), delay_ms: 5, label: format!("v{v}") }
        }));
        let mut hints = ZoneModel { apex: N::root(), soa: None, recs: vec![] };
        hints.recs.push(ZRec { owner: N::root(), wild: false, rtype: T_NS, data: WData::Name(N::parse("a.rs.")), ttl: 3600 });
        hints.recs.push(ZRec { owner: N::parse("a.rs."), wild: false, rtype: T_A, data: WData::A([10, 0, 0, 1]), ttl: 3600 });
        let mut zones = dns_types::zones::types::Zones::new();
        zones.insert(hints.to_impl());
        let cache = SharedCache::new();
        let mode = if c.forwarding { Mode::Forwarding { address: "192.0.2.53:53".parse().unwrap() } } else { Mode::Recursive { protocol: ProtocolMode::OnlyV4, port: 53 } };
        let q = super::c07::to_question(&crate::rwire::WQ { name: name.clone(), qtype: c.qtype, qclass: 1 });
        let t0: u64 = 5_000_000_000;
        let expiry = t0 + u64::from(c.ttl) * 1_000_000_000;
        let out = Outcome::pass(true).class(if c.forwarding { "forwarding" } else { "recursive" });
        let ask = |now: u64| -> Result<Vec<(u32, u32)>, String> {
            clock::set_virtual_nanos(Some(now));
            let r = run_resolve(&mock, mode, &zones, &cache, &q);
            match r.result {
                Err(p) => Err(format!("panic: {p}")),
                Ok(Err(e)) => Err(format!("{e:?}")),
                Ok(Ok(ResolvedRecord::NonAuthoritative { rrs, .. })) | Ok(Ok(ResolvedRecord::Authoritative { rrs, .. })) => Ok(rrs
                    .iter()
                    .map(rr_from_impl)
                    .map(|w| {
                        let v = match &w.data {
                            WData::A(a) => u32::from(a[3]),
                            WData::Opaque(o) => String::from_utf8_lossy(o).trim_start_matches("version-").parse().unwrap_or(0),
                            _ => 0,
                        };
                        (v, w.ttl)
                    })
                    .collect()),
                Ok(Ok(other)) => Err(format!("{other:?}")),
            }
        };
        // 1. learn version 1
        match ask(t0) {
            Ok(v) if v.len() == 1 && v[0].0 == 1 => {}
            other => return out.fail("first-answer-wrong", format!("{other:?}")),
        }
        version.store(2, std::sync::atomic::Ordering::SeqCst);
        if c.prune_between {
            let _ = cache.prune();
        }
        // 2. shortly before expiry: the cached version with an honest TTL, or already the new one
        let now2 = expiry - u64::from(c.before_expiry_ms) * 1_000_000;
        match ask(now2) {
            Ok(v) if v.len() == 1 && v[0].0 == 2 => {}
            Ok(v) if v.len() == 1 && v[0].0 == 1 => {
                let left = expiry - now2;
                if u64::from(v[0].1) * 1_000_000_000 > left {
                    clock::set_virtual_nanos(None);
                    return out.fail("ttl-exceeds-remaining", format!("cached answer reports ttl {} s with {left} ns left", v[0].1));
                }
            }
            other => {
                clock::set_virtual_nanos(None);
                return out.fail("second-answer-wrong", format!("{other:?}"));
            }
        }
        if c.prune_between {
            let _ = cache.prune();
        }
        // 3. at / after expiry: never the old version
        let r3 = ask(expiry + u64::from(c.after_expiry_ms) * 1_000_000);
        clock::set_virtual_nanos(None);
        match r3 {
            Ok(v) if v.len() == 1 && v[0].0 == 2 => out,
            Ok(v) if v.iter().any(|x| x.0 == 1) => out.fail("served-past-ttl", format!("version 1 (ttl {} s) answered {} ms after it expired: {v:?}", c.ttl, c.after_expiry_ms)),
            other => out.fail("third-answer-wrong", format!("{other:?}")),
        }
    }
}

pub fn def() -> PropertyDef {
    PropertyDef {
        id: "C05",
        level: "exploration",
        rule: "Histories of 1..80 operations over 4 names x 4 types x 3 values on the virtual clock (hook H1): insert with TTL in {0,1,2,5,300,u32::MAX}, re-insert, lookup by type, ANY lookup, unchecked lookup, prune, advance by {1 ns, 1 ms, 999 ms, 1 s, ttl-1 ms, ttl, ttl+1 ms, 1 h}; against SharedCache (5/6) or Cache (1/6). Oracle: a map (name,type,data) -> expiry; after every lookup each returned record is in the model, unexpired, data unchanged, reported TTL <= time left, and every model record with >= 1 s left is returned exactly once; after every operation the stored set read through the inspection hook (H4) equals the model (nothing lost, resurrected, duplicated or re-timed); TTL-0 inserts leave the shared cache unchanged. Non-trivial = some lookup returned a record after time had passed since its insertion; distinct by hash of the history. resolver-level: through resolve() in recursive or forwarding mode against a mock upstream (hook H2): a record with TTL 1..300 s is learnt, upstream then changes it, the question is repeated 1 ms..1.5 s before expiry (answer = old value with reported TTL <= time left, or already the new value) and 0..60 s after expiry (answer must be the new value, never the old one), with and without prune calls in between; every such case is non-trivial. nothing-lost (shared with C15): several threads insert singly and in batches into a cache far larger than what they insert; at quiescence every inserted record is stored (a record that has neither expired nor been evicted is returned).",
        assumptions: vec![
            "records with 0 < remaining < 1 s may or may not be returned (the cache reports whole seconds)",
            "eviction by prune is validated by C15 and then adopted by the model",
        ],
        parts: vec![Box::new(Histories), Box::new(ResolverLevel), Box::new(super::c15::NothingLost)],
        budget_s: |t| t.pick(600, 7200),
        needs_repo_bins: false,
    }
}

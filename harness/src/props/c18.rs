//! C18 — the resolver honours the configured address family and upstream port.

use std::net::{IpAddr, SocketAddr};
use std::sync::{Arc, Mutex};

use dns_resolver::cache::{verif as clock, SharedCache};
use dns_types::protocol::types::*;
use serde::{Deserialize, Serialize};

use super::c07::{gen_questions, hints_zones, protocol_of, reachable, to_question};
use crate::engine::{Outcome, Prop, PropertyDef, Tier};
use crate::gen::Gen;
use crate::mock::*;
use crate::rwire::{WMsg, WQ, WRR};
use crate::rzone::*;
use crate::universe::*;
use crate::util::N;

#[derive(Debug, Clone, PartialEq, Eq, Hash, Serialize, Deserialize)]
pub struct Case {
    pub universe: Universe,
    pub questions: Vec<WQ>,
    pub protocol: u8,
    pub port: u16,
    /// forwarding mode: forwarder address text; None = recursive mode
    pub forwarder: Option<String>,
    /// the universe was arranged so that a nameserver comes up twice in one walk
    #[serde(default)]
    pub revisit: bool,
}

pub struct Families;

/// What a forwarder (a full resolver) would answer.
fn forwarder_reply(u: &Universe, q: &WQ) -> WMsg {
    let t = u.truth(q);
    let row = |r: &RRow| WRR { name: r.0.clone(), rtype: r.1, rclass: 1, ttl: r.3, data: r.2.clone() };
    WMsg {
        id: 0,
        qr: true,
        opcode: 0,
        aa: false,
        tc: false,
        rd: true,
        ra: true,
        rcode: if t.name_error { 3 } else { 0 },
        questions: vec![q.clone()],
        answers: t.chain.iter().chain(t.finals.iter()).map(row).collect(),
        authority: t.soa.into_iter().collect(),
        additional: vec![],
    }
}

fn is_v4(ip: IpAddr) -> bool {
    matches!(ip, IpAddr::V4(_))
}

impl Prop for Families {
    type Case = Case;
    fn name(&self) -> &'static str {
        "families"
    }
    fn tape_len(&self) -> usize {
        600
    }
    fn cases(&self, tier: Tier) -> u64 {
        tier.pick(40_000, 4_000_000)
    }
    fn generate(&self, g: &mut Gen) -> Case {
        let mut universe = gen_universe(g, &UniverseOpts { max_zones: 7, max_depth: 4, multi_address_hosts: false, wildcards: false, aliases: true });
        // partial glue: a parent that holds addresses of one family only for
        // a zone's nameservers (the other family is learnt later, from a
        // deeper referral or a look-up)
        for z in universe.zones.iter_mut().skip(1) {
            if g.chance(1, 4) {
                z.glue_families = g.range(1, 2) as u8;
            }
        }
        // a nameserver that comes round again: N serves a zone Z1 and a zone
        // Z3 two cuts further down, the zone in between is served by others;
        // Z1's parent has glue of one family only for N, the referral to Z3
        // carries both.  Under a prefer-* mode N is first contacted at the
        // only address held and must be contacted at the preferred one when
        // it comes up again within the same resolution.
        let mut revisit = false;
        let mut revisit_apex: Option<N> = None;
        if g.chance(1, 5) {
            let idx: Vec<(usize, usize, usize)> = {
                let z = &universe.zones;
                let mut v = Vec::new();
                for c in 1..z.len() {
                    for b in 1..z.len() {
                        for a in 1..z.len() {
                            if a != b && b != c && z[c].apex.is_at_or_below(&z[b].apex) && z[b].apex.is_at_or_below(&z[a].apex) && z[c].apex != z[b].apex && z[b].apex != z[a].apex {
                                v.push((a, b, c));
                            }
                        }
                    }
                }
                v
            };
            if !idx.is_empty() {
                let (a, b, c) = g.pick(&idx);
                let n = universe.zones[a].ns.iter().find(|n| n.is_at_or_below(&universe.zones[a].apex)).cloned();
                if let Some(n) = n {
                    if !universe.zones[b].ns.contains(&n) {
                        if let Some(hi) = universe.hosts.iter().position(|h| h.name == n) {
                            if universe.hosts[hi].v4.is_empty() {
                                universe.hosts[hi].v4.push([10, 7, hi as u8, 53]);
                            }
                            if universe.hosts[hi].v6.is_empty() {
                                let mut x = [0u8; 16];
                                x[0] = 0xfd;
                                x[14] = 7;
                                x[15] = hi as u8;
                                universe.hosts[hi].v6.push(x);
                            }
                            let fam = g.range(1, 2) as u8;
                            universe.zones[a].glue_families = fam;
                            // a split host: the box behind the address the
                            // parent hands out serves Z1 only, the box behind
                            // the other address serves both (one name, two
                            // machines), so the walk really passes through Z2
                            let first_addr = if fam == 1 {
                                std::net::IpAddr::from(universe.hosts[hi].v4[0])
                            } else {
                                std::net::IpAddr::from(universe.hosts[hi].v6[0])
                            };
                            let apex_c = universe.zones[c].apex.clone();
                            universe.unserved.push((first_addr.to_string(), apex_c));
                            universe.zones[c].ns = vec![n];
                            universe.zones[c].glue_for_oob = true;
                            universe.zones[c].glue_families = 0;
                            revisit = true;
                            revisit_apex = Some(universe.zones[c].apex.clone());
                        }
                    }
                }
            }
        }
        // IPv4-mapped IPv6 addresses are IPv6 addresses
        if g.chance(1, 5) {
            let with_v6: Vec<usize> = universe.hosts.iter().enumerate().filter(|(_, h)| !h.v6.is_empty()).map(|x| x.0).collect();
            if !with_v6.is_empty() {
                let hi = g.pick(&with_v6);
                let mut a = [0u8; 16];
                a[10] = 0xff;
                a[11] = 0xff;
                a[12] = 10;
                a[13] = 9;
                a[14] = hi as u8;
                a[15] = 53;
                universe.hosts[hi].v6[0] = a;
            }
        }
        let ok: Vec<u8> = (0..4u8).filter(|p| reachable(&universe, *p)).collect();
        let protocol = g.pick(&ok);
        let questions = gen_questions(g, &universe, 5);
        let port = if g.bool() { 53 } else { g.range(1024, 65000) as u16 };
        let forwarder = if g.chance(1, 5) {
            Some(if g.bool() { format!("192.0.2.{}", g.range(1, 250)) } else { format!("2001:db8::{:x}", g.range(1, 250)) })
        } else {
            None
        };
        // the walk down to the revisited zone
        let mut questions = questions;
        if revisit {
            if let Some(apex) = &revisit_apex {
                questions.insert(0, WQ { name: apex.child(b"www"), qtype: T_A, qclass: 1 });
            }
        }
        Case { universe, questions, protocol, port, forwarder, revisit }
    }
    fn check(&self, c: &Case) -> Outcome {
        clock::set_virtual_nanos(Some(1_000_000_000));
        let u = c.universe.clone();
        let zones = hints_zones(&u);
        let hints = u.hints_zone();
        let cache = SharedCache::new();
        let proto = protocol_of(c.protocol);
        let mut out = Outcome::pass(false).class(if c.revisit { "revisit-arranged" } else { "plain-universe" }).class(format!("protocol:{proto}")).class(if c.forwarder.is_some() { "forwarding" } else { "recursive" });
        let violations: Arc<Mutex<Vec<(String, String)>>> = Default::default();
        let fwd_addr: Option<SocketAddr> = c.forwarder.as_ref().map(|s| SocketAddr::new(s.parse().unwrap(), c.port));

        let v2 = violations.clone();
        let cache2 = cache.clone();
        let u2 = u.clone();
        let (protocol, port) = (c.protocol % 4, c.port);
        let mock = Mock::new(Box::new(move |ctx: &Ctx| {
            let Some(req) = ctx.request else { return Action::Silence };
            let Some(q) = req.questions.first() else { return Action::Silence };
            let mut bad = |s: &str, d: String| v2.lock().unwrap().push((s.to_string(), d));
            if let Some(f) = fwd_addr {
                if ctx.dest != f {
                    bad("not-the-forwarder", format!("sent to {} instead of the forwarder {f}", ctx.dest));
                }
                return Action::Reply { bytes: wire_reply(forwarder_reply(&u2, q), req, ctx.tcp), delay_ms: 10, label: "forwarder".into() };
            }
            if ctx.dest.port() != port {
                bad("wrong-port", format!("sent to port {} instead of {port}", ctx.dest.port()));
            }
            let ip = ctx.dest.ip();
            match protocol {
                0 if !is_v4(ip) => bad("v6-under-only-v4", format!("contacted {ip}")),
                3 if is_v4(ip) => bad("v4-under-only-v6", format!("contacted {ip}")),
                1 | 2 => {
                    let preferred_v4 = protocol == 1;
                    if is_v4(ip) != preferred_v4 {
                        // the host contacted at a non-preferred address: does the
                        // resolver hold a preferred-family address for it right now?
                        for h in u2.hosts.iter().filter(|h| h.ips().contains(&ip)) {
                            let want = if preferred_v4 { T_A } else { T_AAAA };
                            let in_hints = hints.recs.iter().any(|r| r.owner == h.name && r.rtype == want);
                            let snap = cache2.verif_snapshot();
                            let now = clock::virtual_nanos().unwrap_or(0);
                            let in_cache = snap.entries.iter().any(|e| N::from_domain(&e.0) == h.name && u16::from(e.1) == want && e.3 > now);
                            if in_hints || in_cache {
                                bad(
                                    "non-preferred-family-while-holding-preferred",
                                    format!("contacted {} at {ip} while holding a {} address for it ({})", h.name, if preferred_v4 { "v4" } else { "v6" }, if in_hints { "hints" } else { "cache" }),
                                );
                            }
                        }
                    }
                }
                _ => {}
            }
            match u2.serve(ip, q) {
                None => Action::Silence,
                Some(m) => Action::Reply { bytes: wire_reply(m, req, ctx.tcp), delay_ms: 20, label: "universe".into() },
            }
        }));

        let mode = match fwd_addr {
            Some(address) => Mode::Forwarding { address },
            None => Mode::Recursive { protocol: proto, port: c.port },
        };
        for q in &c.questions {
            mock.clear_log();
            let r = run_resolve(&mock, mode, &zones, &cache, &to_question(q));
            if let Err(p) = &r.result {
                return out.fail("resolver-panic", p.clone());
            }
            let log = mock.log();
            out.counts.push(("exchanges", log.len() as u64));
            if std::env::var("VERIF_DEBUG").is_ok() {
                eprintln!("question {} {}: {}", q.name, q.qtype, super::c07::describe(&log));
            }
            // order of the resolver's own address look-ups per nameserver host
            if fwd_addr.is_none() && (protocol == 1 || protocol == 2) {
                let mut first_seen: std::collections::BTreeMap<N, u16> = Default::default();
                for e in &log {
                    let Some(lq) = question_of(e.request.as_ref()) else { continue };
                    let name = lq.name.lower();
                    if (lq.qtype == T_A || lq.qtype == T_AAAA) && name != q.name.lower() && u.hosts.iter().any(|h| h.name == name) {
                        first_seen.entry(name).or_insert(lq.qtype);
                    }
                }
                for (h, t) in first_seen {
                    let want = if protocol == 1 { T_A } else { T_AAAA };
                    // A host that is a nameserver of the zone it lives in can
                    // only be looked up through itself: the look-up for the
                    // preferred family is then still in progress (on the
                    // resolver's question stack, where it cannot be repeated)
                    // when the nested look-up falls back to the other family,
                    // whose query reaches the wire first.  Not judged.
                    let self_dependent = u.zones.iter().filter(|z| h.is_at_or_below(&z.apex)).max_by_key(|z| z.apex.depth()).map_or(false, |z| z.ns.iter().any(|n| n.lower() == h));
                    if t != want && self_dependent {
                        out.classes.push("own-address-lookup:self-dependent-host".into());
                        continue;
                    }
                    if t != want {
                        return out.fail("lookup-order", format!("looked up {h} type {t} first under {proto}; exchanges: {}", super::c07::describe(&log)));
                    }
                    out.classes.push("own-address-lookup".into());
                }
            }
            // non-triviality: contacted a host that is dual-stacked or only has the non-preferred family
            for e in &log {
                for h in u.hosts.iter().filter(|h| h.ips().contains(&e.dest.ip())) {
                    let dual = !h.v4.is_empty() && !h.v6.is_empty();
                    let only_other = match protocol {
                        1 => h.v4.is_empty(),
                        2 => h.v6.is_empty(),
                        _ => false,
                    };
                    if dual || only_other {
                        out.nontrivial = true;
                        out.classes.push(if dual { "contacted-dual-host".into() } else { "contacted-host-without-preferred-family".into() });
                    }
                }
            }
            if fwd_addr.is_some() && !log.is_empty() {
                out.nontrivial = true;
            }
        }
        clock::set_virtual_nanos(None);
        let v = violations.lock().unwrap();
        if let Some((s, d)) = v.first() {
            return out.fail(s.clone(), d.clone());
        }
        out
    }
}

pub fn def() -> PropertyDef {
    PropertyDef {
        id: "C18",
        level: "exploration",
        rule: "A generated universe (as in C07; nameserver hosts v4-only, v6-only or dual, sometimes with an IPv4-mapped IPv6 address; one zone in four gets glue of one family only from its parent; one universe in five is arranged so that a dual-stacked nameserver known by one family only comes up again two cuts further down with glue of both families (a split host: the box at the address known first does not serve the deeper zone, so that the walk passes through the zone in between); addresses learnt from hints, glue, cache left by earlier questions or the resolver's own look-ups) and a session of 1..5 questions in one of the four protocol modes under which every zone is reachable, upstream port 53 or random, 1 case in 5 in forwarding mode with a random v4/v6 forwarder. The mock transport (hook H2) checks every exchange when it happens: destination port = configured; only-v4 => destination is v4, only-v6 => v6; prefer-X => if the destination is a non-X address of host H, neither the hints nor the cache (read through the inspection hook at that instant) hold an unexpired X address for H; forwarding => destination = the forwarder. After each question the log is checked: the first address look-up the resolver issued for a nameserver host asks for the preferred family (not judged for a host that is a nameserver of the zone it lives in: its preferred-family look-up is still in progress when the nested one falls back). Non-trivial = a contacted host is dual-stacked or lacks the preferred family, or (forwarding) something was forwarded. Distinct by hash of the case.",
        assumptions: vec!["one address per family and host (multi-address hosts are C07's)"],
        parts: vec![Box::new(Families)],
        budget_s: |t| t.pick(900, 10_800),
        needs_repo_bins: false,
    }
}

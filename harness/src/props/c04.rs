//! C04 — encoding then decoding a message returns the same message.

use dns_types::protocol::types::Message;
use serde::{Deserialize, Serialize};

use crate::engine::{catch, Outcome, Prop, PropertyDef, Tier};
use crate::gen::Gen;
use crate::rwire::{self, WData, WMsg, WQ, WRR};
use crate::util::N;
use crate::wiregen::*;

/// Root-cause signature for an encoding that does not read back.
fn signature_for(bytes: &[u8], m: &WMsg, default: &str) -> String {
    // F1 (DESIGN Appendix D): a name first written at or beyond offset 16384
    // is later referred to through a (truncated) pointer
    if bytes.len() > 0x4000 {
        if let Err(e) = rwire::audit_pointers(bytes, m) {
            if e.contains("[truncated-pointer]") {
                return "ptr-beyond-16k".to_string();
            }
        }
    }
    default.to_string()
}

/// The round-trip oracle for one message.
pub fn roundtrip(m: &WMsg, out: &mut Outcome) -> Result<(), (String, String)> {
    let want = canonical(m);
    let Some(im) = rwire::to_impl(m) else {
        out.classes.push("not-representable".into());
        return Ok(());
    };
    let bytes = match catch(|| im.to_octets()) {
        Err(p) => return Err(("encoder-panic".into(), p)),
        Ok(Err(e)) => {
            // only counters that do not fit 16 bits may be refused
            let too_many = [m.questions.len(), m.answers.len(), m.authority.len(), m.additional.len()]
                .iter()
                .any(|n| *n > 65535);
            let big_rdata = m.answers.iter().chain(&m.authority).chain(&m.additional).any(|rr| match &rr.data {
                WData::Opaque(o) => o.len() > 65535,
                _ => false,
            });
            if too_many || big_rdata {
                out.classes.push("refused:counter".into());
                return Ok(());
            }
            return Err(("encoder-refuses-valid".into(), format!("{e:?}")));
        }
        Ok(Ok(b)) => b.to_vec(),
    };
    out.classes.push(match bytes.len() {
        0..=512 => "size<=512",
        513..=16383 => "size<=16K",
        16384..=65535 => "size<=64K",
        _ => "size>64K",
    }
    .into());
    // 1. the server's own decoder
    match catch(|| Message::from_octets(&bytes)) {
        Err(p) => return Err(("decoder-panic".into(), p)),
        Ok(Err(e)) => {
            return Err((signature_for(&bytes, &want, "own-encoding-rejected"), format!("decoder says {e:?} for its own encoding of {} bytes", bytes.len())))
        }
        Ok(Ok(back)) => {
            if back != im {
                return Err((signature_for(&bytes, &want, "roundtrip-differs"), format!("decoded message differs from the original ({} bytes)", bytes.len())));
            }
        }
    }
    // 2. the independent decoder
    match rwire::decode(&bytes) {
        Err(e) => return Err((signature_for(&bytes, &want, "reference-rejects-encoding"), format!("reference decoder: {e:?}"))),
        Ok(w) => {
            if w != want {
                return Err((signature_for(&bytes, &want, "reference-reads-differently"), "reference decoder reads a different message".to_string()));
            }
        }
    }
    // 3. pointer audit
    match rwire::audit_pointers(&bytes, &want) {
        Ok(n) => {
            out.counts.push(("pointers-audited", n as u64));
            if n > 0 {
                out.classes.push("has-pointers".into());
            }
        }
        Err(e) => return Err((signature_for(&bytes, &want, "dishonest-pointer"), e)),
    }
    Ok(())
}

fn repeats_names(m: &WMsg) -> bool {
    let mut names: Vec<N> = m.questions.iter().map(|q| q.name.lower()).collect();
    for rr in m.answers.iter().chain(&m.authority).chain(&m.additional) {
        names.push(rr.name.lower());
        match &rr.data {
            WData::Name(n) | WData::Mx(_, n) | WData::Srv(_, _, _, n) => names.push(n.lower()),
            WData::Soa { mname, rname, .. } => {
                names.push(mname.lower());
                names.push(rname.lower());
            }
            WData::Minfo(a, b) => {
                names.push(a.lower());
                names.push(b.lower());
            }
            _ => {}
        }
    }
    names.retain(|n| !n.0.is_empty());
    let total = names.len();
    names.sort();
    names.dedup();
    names.len() < total
}

fn finish(out: Outcome, r: Result<(), (String, String)>) -> Outcome {
    match r {
        Ok(()) => out,
        Err((s, d)) => out.fail(s, d),
    }
}

// ------------------------------------------------------------------------

#[derive(Debug, Clone, PartialEq, Eq, Hash, Serialize, Deserialize)]
pub struct HeaderCase {
    pub bits: u16,
}

/// All 8192 header combinations with a small body.
pub struct Headers;

impl Prop for Headers {
    type Case = HeaderCase;
    fn name(&self) -> &'static str {
        "headers"
    }
    fn cases(&self, _tier: Tier) -> u64 {
        0
    }
    fn generate(&self, _g: &mut Gen) -> HeaderCase {
        HeaderCase { bits: 0 }
    }
    fn enumerate(&self, _tier: Tier, emit: &mut dyn FnMut(HeaderCase)) {
        for bits in 0..8192u16 {
            emit(HeaderCase { bits });
        }
    }
    fn exhaustive(&self, _tier: Tier) -> bool {
        true
    }
    fn check(&self, c: &HeaderCase) -> Outcome {
        let b = c.bits;
        let name = N::parse("www.example.com.");
        let m = WMsg {
            id: b.wrapping_mul(8191) ^ 0x5a5a,
            qr: b & 1 != 0,
            aa: b >> 1 & 1 != 0,
            tc: b >> 2 & 1 != 0,
            rd: b >> 3 & 1 != 0,
            ra: b >> 4 & 1 != 0,
            opcode: (b >> 5 & 15) as u8,
            rcode: (b >> 9 & 15) as u8,
            questions: vec![WQ { name: name.clone(), qtype: 1, qclass: 1 }],
            answers: vec![WRR { name, rtype: 1, rclass: 1, ttl: 5, data: WData::A([1, 2, 3, 4]) }],
            authority: vec![],
            additional: vec![],
        };
        let mut out = Outcome::pass(true);
        let r = roundtrip(&m, &mut out);
        finish(out, r)
    }
}

// ------------------------------------------------------------------------

#[derive(Debug, Clone, PartialEq, Eq, Hash, Serialize, Deserialize)]
pub struct BodyCase {
    pub msg: WMsg,
}

pub struct Bodies;

impl Prop for Bodies {
    type Case = BodyCase;
    fn name(&self) -> &'static str {
        "bodies"
    }
    fn tape_len(&self) -> usize {
        400
    }
    fn cases(&self, tier: Tier) -> u64 {
        tier.pick(150_000, 10_000_000)
    }
    fn generate(&self, g: &mut Gen) -> BodyCase {
        let o = MsgOpts {
            max_rrs: g.pick(&[1usize, 3, 8, 20]),
            max_questions: 3,
            max_opaque: g.pick(&[8usize, 40, 255, 256, 700]),
            long_names: true,
        };
        BodyCase { msg: gen_wmsg(g, &o) }
    }
    fn check(&self, c: &BodyCase) -> Outcome {
        let mut out = Outcome::pass(repeats_names(&c.msg));
        if out.nontrivial {
            out.classes.push("repeated-names".into());
        }
        let r = roundtrip(&c.msg, &mut out);
        finish(out, r)
    }
}

// ------------------------------------------------------------------------

/// Large messages: RDATA of special lengths, encodings beyond 16 KiB, and the
/// sweep that places the first occurrence of a name at each offset around
/// 16384 and then uses the name again.
#[derive(Debug, Clone, PartialEq, Eq, Hash, Serialize, Deserialize)]
pub struct BigCase {
    /// lengths of leading opaque (TXT/NULL/unknown) records
    pub pads: Vec<u32>,
    /// names written after the padding, each used `uses` times
    pub names: Vec<N>,
    pub uses: u8,
    /// 0: owners only, 1: also inside RDATA (NS), 2: first occurrence inside RDATA (uncompressed)
    pub mode: u8,
}

pub struct Big;

fn big_message(c: &BigCase) -> WMsg {
    let mut answers = Vec::new();
    for (i, p) in c.pads.iter().enumerate() {
        answers.push(WRR {
            name: N::root(),
            rtype: [16u16, 10, 99][i % 3],
            rclass: 1,
            ttl: 1,
            data: WData::Opaque((0..*p).map(|j| (j as u8).wrapping_mul(13)).collect()),
        });
    }
    let mut authority = Vec::new();
    for n in &c.names {
        if c.mode == 2 {
            authority.push(WRR { name: N::root(), rtype: 2, rclass: 1, ttl: 2, data: WData::Name(n.clone()) });
        }
        for k in 0..c.uses {
            authority.push(WRR { name: n.clone(), rtype: 1, rclass: 1, ttl: 3, data: WData::A([10, 0, 0, k]) });
            if c.mode == 1 {
                authority.push(WRR { name: N::parse("z."), rtype: 2, rclass: 1, ttl: 4, data: WData::Name(n.clone()) });
            }
        }
    }
    WMsg {
        id: 7,
        qr: true,
        opcode: 0,
        aa: false,
        tc: false,
        rd: false,
        ra: false,
        rcode: 0,
        questions: vec![],
        answers,
        authority,
        additional: vec![],
    }
}

impl Prop for Big {
    type Case = BigCase;
    fn name(&self) -> &'static str {
        "big"
    }
    fn tape_len(&self) -> usize {
        64
    }
    fn cases(&self, tier: Tier) -> u64 {
        tier.pick(600, 20_000)
    }
    fn generate(&self, g: &mut Gen) -> BigCase {
        let npads = g.range(0, 3);
        let mut pads = Vec::new();
        let mut total = 0u32;
        for _ in 0..npads {
            let p = match g.weighted(&[2, 2, 2, 2, 1, 1]) {
                0 => g.pick(&[0u32, 1, 255, 256]),
                1 => g.range(16_000, 16_500) as u32,
                2 => g.pick(&[16_383u32, 16_384]),
                3 => g.range(0, 30_000) as u32,
                4 => 65_535,
                _ => g.range(30_000, 65_535) as u32,
            };
            if total + p > 66_000 {
                break;
            }
            total += p;
            pads.push(p);
        }
        let pool = gen_pool(g, true);
        let k = g.range(1, 3);
        let names = (0..k).map(|_| g.pick_ref(&pool).lower()).filter(|n| !n.0.is_empty()).collect();
        BigCase { pads, names, uses: g.range(1, 3) as u8, mode: g.below(3) as u8 }
    }
    fn enumerate(&self, _tier: Tier, emit: &mut dyn FnMut(BigCase)) {
        // boundary sweep: first occurrence of the late name at every offset
        // in 16370..=16400.  Layout: 12 header + RR(root owner: 1+10 = 11
        // octets before RDATA) + pad, then the next RR starts with the name.
        for target in 16_370u32..=16_400 {
            for mode in 0..3u8 {
                // mode 2 writes "root NS <name>": name starts 11 octets later
                let lead = 12 + 11 + if mode == 2 { 11 } else { 0 };
                emit(BigCase {
                    pads: vec![target - lead],
                    names: vec![N::parse("late.name.example.")],
                    uses: 2,
                    mode,
                });
            }
        }
        // RDATA length boundaries
        for p in [0u32, 1, 255, 256, 16_383, 16_384, 65_535] {
            emit(BigCase { pads: vec![p], names: vec![N::parse("a.example.")], uses: 2, mode: 0 });
        }
        // encodings just below / beyond 64 KiB
        for p in [65_400u32, 65_480, 65_500, 65_535] {
            emit(BigCase { pads: vec![p], names: vec![N::parse("a.example.")], uses: 1, mode: 0 });
        }
    }
    fn check(&self, c: &BigCase) -> Outcome {
        let m = big_message(c);
        let size: u64 = c.pads.iter().map(|p| u64::from(*p)).sum();
        let mut out = Outcome::pass(size > 16_000 || c.uses > 1);
        out.classes.push(format!("mode{}", c.mode));
        let r = roundtrip(&m, &mut out);
        finish(out, r)
    }
}

// ------------------------------------------------------------------------

/// Byte strings that decode (reference encodings with arbitrary compression,
/// possibly mutated): re-encoding the decoded message must decode to it again.
#[derive(Debug, Clone, PartialEq, Eq, Hash, Serialize, Deserialize)]
pub struct ReencodeCase {
    pub msg: WMsg,
    #[serde(with = "crate::util::hexbytes")]
    pub compression: Vec<u8>,
    pub mutate: Option<(u16, u8)>,
    pub truncate_padding: u8,
}

pub struct Reencode;

impl Prop for Reencode {
    type Case = ReencodeCase;
    fn name(&self) -> &'static str {
        "reencode"
    }
    fn tape_len(&self) -> usize {
        220
    }
    fn cases(&self, tier: Tier) -> u64 {
        tier.pick(150_000, 10_000_000)
    }
    fn generate(&self, g: &mut Gen) -> ReencodeCase {
        let msg = gen_wmsg(g, &MsgOpts::small());
        let compression = g.bytes(24);
        let mutate = if g.chance(1, 2) { Some((g.u16(), g.u8())) } else { None };
        ReencodeCase { msg, compression, mutate, truncate_padding: g.below(4) as u8 }
    }
    fn check(&self, c: &ReencodeCase) -> Outcome {
        let enc = rwire::encode_with(&c.msg, &mut ByteChooser { bytes: &c.compression, pos: 0 });
        let mut bytes = enc.out;
        if let Some((at, v)) = c.mutate {
            if !bytes.is_empty() {
                let i = at as usize % bytes.len();
                bytes[i] = v;
            }
        }
        // trailing zero padding, as on the UDP receive path
        bytes.extend(std::iter::repeat(0).take(c.truncate_padding as usize * 7));
        let first = match catch(|| Message::from_octets(&bytes)) {
            Err(p) => return Outcome::pass(false).fail("decoder-panic", p),
            Ok(Err(_)) => return Outcome::pass(false).class("not-decodable"),
            Ok(Ok(m)) => m,
        };
        let mut out = Outcome::pass(!enc.pointers.is_empty() || c.mutate.is_some()).class("decodable");
        let re = match catch(|| first.to_octets()) {
            Err(p) => return out.fail("encoder-panic", p),
            Ok(Err(e)) => return out.fail("encoder-refuses-decoded", format!("{e:?}")),
            Ok(Ok(b)) => b.to_vec(),
        };
        match catch(|| Message::from_octets(&re)) {
            Err(p) => out.fail("decoder-panic", p),
            Ok(Err(e)) => out.fail("reencoding-rejected", format!("{e:?}")),
            Ok(Ok(second)) => {
                if second != first {
                    return out.fail("reencoding-differs", "decode(encode(decode b)) != decode b");
                }
                match rwire::decode(&re) {
                    Ok(w) if w == rwire::from_impl(&first) => out,
                    other => out.fail("reference-reads-reencoding-differently", format!("{:?}", other.map(|_| ()))),
                }
            }
        }
    }
}

/// The fuzz target `wire_roundtrip` decodes its bytes as a choice tape.
pub fn message_from_fuzz_bytes(data: &[u8]) -> WMsg {
    let tape: Vec<u32> = data
        .chunks(4)
        .map(|c| {
            let mut b = [0u8; 4];
            b[..c.len()].copy_from_slice(c);
            u32::from_be_bytes(b)
        })
        .collect();
    let mut g = Gen::new(&tape);
    let big = g.chance(1, 4);
    let o = MsgOpts {
        max_rrs: 6,
        max_questions: 3,
        max_opaque: if big { 65_535 } else { 300 },
        long_names: true,
    };
    gen_wmsg(&mut g, &o)
}

pub fn classify_tape(b: &[u8]) -> Option<(String, String, &'static str, serde_json::Value)> {
    let m = message_from_fuzz_bytes(b);
    let mut out = Outcome::pass(false);
    match roundtrip(&m, &mut out) {
        Ok(()) => None,
        Err((s, d)) => Some((s, d, "bodies", serde_json::to_value(BodyCase { msg: m }).unwrap_or_default())),
    }
}

// --------------------------------------------------------------------------
// re-encoding what the decoder accepts among the adversarial constructions
// (C03's enumerated inputs: pointer chains, boundary lengths, odd counts)

pub struct ReencodeConstructions;

fn reencode_bytes(bytes: &[u8], mut out: Outcome) -> Outcome {
    let first = match catch(|| Message::from_octets(bytes)) {
        Err(p) => return out.fail("decoder-panic", p),
        Ok(Err(_)) => return out.class("not-decodable"),
        Ok(Ok(m)) => m,
    };
    out.nontrivial = true;
    out.classes.push("decodable".into());
    let re = match catch(|| first.to_octets()) {
        Err(p) => return out.fail("encoder-panic", p),
        Ok(Err(e)) => return out.fail("encoder-refuses-decoded", format!("{e:?}")),
        Ok(Ok(b)) => b.to_vec(),
    };
    match catch(|| Message::from_octets(&re)) {
        Err(p) => out.fail("decoder-panic", p),
        Ok(Err(e)) => out.fail("reencoding-rejected", format!("{e:?} for the re-encoding ({} octets) of an accepted input of {} octets", re.len(), bytes.len())),
        Ok(Ok(second)) if second != first => out.fail("reencoding-differs", "decode(encode(decode b)) != decode b"),
        Ok(Ok(_)) => out,
    }
}

impl Prop for ReencodeConstructions {
    type Case = Construction;
    fn name(&self) -> &'static str {
        "reencode-constructions"
    }
    fn cases(&self, _tier: Tier) -> u64 {
        0
    }
    fn generate(&self, _g: &mut Gen) -> Construction {
        unreachable!("constructions are enumerated")
    }
    fn enumerate(&self, _tier: Tier, emit: &mut dyn FnMut(Construction)) {
        for c in Construction::all() {
            emit(c);
        }
    }
    fn check(&self, c: &Construction) -> Outcome {
        reencode_bytes(&c.bytes(), Outcome::pass(false).class("construction"))
    }
}

pub fn def() -> PropertyDef {
    PropertyDef {
        id: "C04",
        level: "exploration",
        rule: "headers: all 8192 combinations of QR x opcode x AA x TC x RD x RA x rcode (exhaustive) with a one-question one-answer body. bodies: messages with 0..20 records per section over all 18 types + unknown types/classes + special QTYPEs, names drawn from a pool of 1..6 names (shared suffixes, 63-octet labels, 255-octet names, mixed case), RDATA up to 700 octets. big: padding records of 0..65535 octets followed by names used 1..3 times as owners / in RDATA, incl. the enumerated sweep placing the first occurrence of a name at every offset 16370..16400, RDATA lengths {0,1,255,256,16383,16384,65535} and encodings around 64 KiB. Oracle for these three: from_octets(to_octets(m)) == m, the reference decoder reads the same message, and the pointer audit (every pointer targets an earlier in-line occurrence of the identical name). reencode: reference encodings with arbitrary compression, optionally one mutated byte and zero padding; if the decoder accepts b then decode(encode(decode b)) == decode b; reencode-constructions: the same for every enumerated adversarial input of C03 (pointer chains, names at the length limits through pointers, odd counts) that the decoder accepts. Non-trivial: headers always; bodies = some name occurs twice; big = >16000 octets of padding or a reused name; reencode = decodable input with pointers or a mutation. Distinct by hash of the case.",
        assumptions: vec![
            "to_octets may refuse only section counts or RDATA beyond 65535",
            "messages are compared through the public fields (R-WIRE conversion) and through the implementation's own PartialEq",
        ],
        parts: vec![
            Box::new(Headers),
            Box::new(Big),
            Box::new(crate::fuzzrun::FuzzPart { name: "fuzz-wire_roundtrip", target: "wire_roundtrip", runs_per_job: 250_000, jobs: 8, max_len: 4_096, classify: classify_tape }),
            Box::new(Bodies),
            Box::new(Reencode),
            Box::new(ReencodeConstructions),
        ],
        budget_s: |t| t.pick(900, 10_800),
        needs_repo_bins: false,
    }
}

//! C08 — every resolution terminates in bounded time whatever upstream
//! servers do.

use std::net::SocketAddr;
use std::sync::{Arc, Mutex};

use dns_resolver::cache::{verif as clock, SharedCache};
use dns_resolver::util::types::ResolvedRecord;
use dns_types::protocol::types::*;
use serde::{Deserialize, Serialize};

use super::c07::{gen_questions, hints_zones, protocol_of, reachable, to_question};
use crate::engine::{Outcome, Prop, PropertyDef, Tier};
use crate::gen::Gen;
use crate::mock::*;
use crate::rwire::{self, rr_from_impl, WData, WMsg, WQ, WRR};
use crate::rzone::*;
use crate::universe::*;
use crate::util::N;

#[derive(Debug, Clone, Copy, PartialEq, Eq, Hash, Serialize, Deserialize)]
pub enum Fault {
    None,
    /// never answer
    Drop,
    /// answer correctly after that many virtual milliseconds
    Delay(u32),
    /// random octets (seeded)
    Garbage(u8),
    /// the first n octets of the right reply
    Truncate(u16),
    WrongId,
    Tc,
    Rcode(u8),
    AlterQuestion,
    /// transport-level failure
    Fail,
    /// QR bit clear
    NotAResponse,
    /// the right reply without its question section (QDCOUNT 0)
    NoQuestion,
    /// the right reply with the question given twice
    TwoQuestions,
}

pub const ALL_FAULTS: [Fault; 18] = [
    Fault::NoQuestion,
    Fault::TwoQuestions,
    Fault::None,
    Fault::Drop,
    Fault::Delay(0),
    Fault::Delay(4_999),
    Fault::Delay(5_000),
    Fault::Delay(5_001),
    Fault::Delay(59_000),
    Fault::Garbage(7),
    Fault::Truncate(11),
    Fault::Truncate(20),
    Fault::WrongId,
    Fault::Tc,
    Fault::Rcode(2),
    Fault::AlterQuestion,
    Fault::Fail,
    Fault::NotAResponse,
];

/// Misbehaviour planted in the hierarchy itself.
#[derive(Debug, Clone, PartialEq, Eq, Hash, Serialize, Deserialize)]
pub enum Structural {
    /// the servers of zone i answer REFUSED for everything
    Lame(u8),
    /// the servers of zone i refer every question to zone i again
    CircularReferral(u8),
    /// the servers of zone i refer every question to their parent zone
    ReferralToAncestor(u8),
    /// referrals to zone i carry no glue at all
    NoGlue(u8),
    /// zone i is delegated to three nameserver names that do not exist
    UnresolvableNs(u8),
    /// an alias loop of that length at loop0.<apex of zone i>
    AliasLoop(u8, u8),
    /// an alias chain of that length at chain0.<apex of zone i>
    LongChain(u8, u8),
}

#[derive(Debug, Clone, PartialEq, Eq, Hash, Serialize, Deserialize)]
pub struct Case {
    pub universe: Universe,
    pub structural: Vec<Structural>,
    pub plan: Vec<Fault>,
    pub questions: Vec<WQ>,
    pub protocol: u8,
    pub forwarding: bool,
    /// alias loop pre-seeded in the cache (length, 0 = none)
    pub cache_loop: u8,
    /// every reply not delayed otherwise arrives after this many ms: slow but
    /// working servers, so that long resolutions run into the 60 s budget
    #[serde(default)]
    pub slow_ms: u32,
    /// forwarding mode: the forwarder answers an aliased name with the first
    /// link only, so the resolver has to follow the chain query by query
    #[serde(default)]
    pub fwd_one_link: bool,
    /// every UDP reply is truncated (TC), so that every exchange is repeated over TCP
    #[serde(default)]
    pub tc_always: bool,
}

pub struct Faults;

fn apply_structural(u: &mut Universe, s: &[Structural]) -> Vec<WQ> {
    let mut extra_questions = Vec::new();
    for st in s {
        match st {
            Structural::UnresolvableNs(i) => {
                let zi = (*i as usize) % u.zones.len();
                if zi > 0 {
                    let apex = u.zones[zi].apex.clone();
                    u.zones[zi].ns = (0..3).map(|k| apex.child(format!("ghost{k}").as_bytes())).collect();
                }
            }
            Structural::AliasLoop(i, len) => {
                let zi = (*i as usize) % u.zones.len();
                let apex = u.zones[zi].apex.clone();
                let n = (*len).clamp(1, 5) as usize;
                for k in 0..n {
                    u.zones[zi].recs.push(ZRec {
                        owner: apex.child(format!("loop{k}").as_bytes()),
                        wild: false,
                        rtype: T_CNAME,
                        data: WData::Name(apex.child(format!("loop{}", (k + 1) % n).as_bytes())),
                        ttl: 300,
                    });
                }
                extra_questions.push(WQ { name: apex.child(b"loop0"), qtype: T_A, qclass: 1 });
                // odd loops are served by servers that put the whole chain into one reply
                if n % 2 == 1 {
                    u.zones[zi].chases = true;
                }
                // an alias that leads INTO the loop without being part of it
                u.zones[zi].recs.push(ZRec { owner: apex.child(b"into"), wild: false, rtype: T_CNAME, data: WData::Name(apex.child(b"loop0")), ttl: 300 });
                extra_questions.push(WQ { name: apex.child(b"into"), qtype: T_A, qclass: 1 });
            }
            Structural::LongChain(i, len) => {
                let zi = (*i as usize) % u.zones.len();
                let apex = u.zones[zi].apex.clone();
                let n = (*len).clamp(2, 45) as usize;
                for k in 0..n {
                    u.zones[zi].recs.push(ZRec {
                        owner: apex.child(format!("chain{k}").as_bytes()),
                        wild: false,
                        rtype: T_CNAME,
                        data: WData::Name(apex.child(format!("chain{}", k + 1).as_bytes())),
                        ttl: 300,
                    });
                }
                u.zones[zi].recs.push(ZRec { owner: apex.child(format!("chain{n}").as_bytes()), wild: false, rtype: T_A, data: WData::A([192, 0, 2, 77]), ttl: 300 });
                extra_questions.push(WQ { name: apex.child(b"chain0"), qtype: T_A, qclass: 1 });
            }
            _ => {}
        }
    }
    extra_questions
}

fn structural_reply(u: &Universe, s: &[Structural], ip: std::net::IpAddr, q: &WQ) -> Option<WMsg> {
    let served = u.zones_at(ip);
    let zi = served.iter().copied().filter(|i| q.name.lower().is_at_or_below(&u.zones[*i].apex)).max_by_key(|i| u.zones[*i].apex.depth())?;
    let base = WMsg { id: 0, qr: true, opcode: 0, aa: false, tc: false, rd: false, ra: false, rcode: 0, questions: vec![q.clone()], answers: vec![], authority: vec![], additional: vec![] };
    let ns_set = |z: &UZone| -> Vec<WRR> { z.ns.iter().map(|n| WRR { name: z.apex.clone(), rtype: T_NS, rclass: 1, ttl: 300, data: WData::Name(n.clone()) }).collect() };
    for st in s {
        match st {
            Structural::Lame(i) if (*i as usize) % u.zones.len() == zi && zi > 0 => {
                let mut m = base.clone();
                m.rcode = 5;
                return Some(m);
            }
            Structural::CircularReferral(i) if (*i as usize) % u.zones.len() == zi && zi > 0 => {
                let mut m = base.clone();
                m.authority = ns_set(&u.zones[zi]);
                m.additional = u.glue_for(0, zi);
                return Some(m);
            }
            Structural::ReferralToAncestor(i) if (*i as usize) % u.zones.len() == zi && zi > 0 => {
                let mut m = base.clone();
                m.authority = ns_set(&u.zones[0]);
                return Some(m);
            }
            _ => {}
        }
    }
    let mut m = u.serve(ip, q)?;
    // referral to a zone whose glue is withheld
    for st in s {
        if let Structural::NoGlue(i) = st {
            let target = &u.zones[(*i as usize) % u.zones.len()].apex;
            if m.answers.is_empty() && m.authority.iter().any(|r| r.rtype == T_NS && r.name == *target) {
                m.additional.clear();
            }
        }
    }
    Some(m)
}

fn gen_fault(g: &mut Gen) -> Fault {
    match g.weighted(&[6, 2, 3, 1, 1, 1, 1, 1, 1, 1, 1, 1, 1]) {
        0 => Fault::None,
        1 => Fault::Drop,
        2 => Fault::Delay(g.pick(&[0u32, 100, 4_999, 5_000, 5_001, 9_000, 20_000, 59_000, 61_000, 70_000])),
        3 => Fault::Garbage(g.u8()),
        4 => Fault::Truncate(g.pick(&[0u16, 1, 2, 11, 12, 13, 20, 40])),
        5 => Fault::WrongId,
        6 => Fault::Tc,
        7 => Fault::Rcode(g.pick(&[1u8, 2, 4, 5, 9])),
        8 => Fault::AlterQuestion,
        9 => Fault::Fail,
        10 => Fault::NotAResponse,
        11 => Fault::NoQuestion,
        _ => Fault::TwoQuestions,
    }
}

impl Prop for Faults {
    type Case = Case;
    fn name(&self) -> &'static str {
        "fault-plans"
    }
    fn tape_len(&self) -> usize {
        700
    }
    fn cases(&self, tier: Tier) -> u64 {
        tier.pick(30_000, 3_000_000)
    }
    fn generate(&self, g: &mut Gen) -> Case {
        let mut universe = gen_universe(g, &UniverseOpts { max_zones: 6, max_depth: 4, multi_address_hosts: false, wildcards: false, aliases: true });
        let nz = universe.zones.len() as u8;
        let structural = g.vec(0, 2, |g| match g.below(7) {
            0 => Structural::Lame(g.range(1, 5) as u8 % nz),
            1 => Structural::CircularReferral(g.range(1, 5) as u8 % nz),
            2 => Structural::ReferralToAncestor(g.range(1, 5) as u8 % nz),
            3 => Structural::NoGlue(g.range(1, 5) as u8 % nz),
            4 => Structural::UnresolvableNs(g.range(1, 5) as u8 % nz),
            5 => Structural::AliasLoop(g.below(6) as u8 % nz, g.range(1, 5) as u8),
            _ => Structural::LongChain(g.below(6) as u8 % nz, g.pick(&[3u8, 20, 31, 32, 33, 40])),
        });
        let mut extra = apply_structural(&mut universe, &structural);
        let plan = g.vec(0, 12, gen_fault);
        let ok: Vec<u8> = (0..4u8).filter(|p| reachable(&universe, *p)).collect();
        let protocol = if ok.is_empty() { 1 } else { g.pick(&ok) };
        let mut questions = gen_questions(g, &universe, 2);
        questions.append(&mut extra);
        // questions about names inside a structurally broken zone
        for st in &structural {
            if let Structural::Lame(i) | Structural::CircularReferral(i) | Structural::ReferralToAncestor(i) | Structural::NoGlue(i) | Structural::UnresolvableNs(i) = st {
                let apex = universe.zones[(*i as usize) % universe.zones.len()].apex.clone();
                questions.push(WQ { name: apex.child(b"www"), qtype: T_A, qclass: 1 });
            }
        }
        Case { universe, structural, plan, questions, protocol, forwarding: g.chance(1, 5), cache_loop: if g.chance(1, 8) { g.range(1, 5) as u8 } else { 0 }, slow_ms: if g.chance(1, 5) { g.pick(&[1_000u32, 2_500, 4_000, 4_900, 4_999]) } else { 0 }, fwd_one_link: g.bool(), tc_always: g.chance(1, 6) }
    }

    fn enumerate(&self, tier: Tier, emit: &mut dyn FnMut(Case)) {
        // every assignment of the 18 faults to the first 2 (quick) / 3
        // (thorough) exchanges of a fixed three-level resolution
        let mk_zone = |apex: &str, ns: &str, recs: Vec<ZRec>| UZone {
            apex: N::parse(apex),
            soa: SoaM { mname: N::parse(ns), rname: N::parse("h."), serial: 1, refresh: 1, retry: 1, expire: 1, minimum: 0 },
            ns: vec![N::parse(ns)],
            recs,
            glue_for_oob: false,
            chases: false,
            extra_sections: false,
            ns_ttl: 300,
            glue_families: 0,
        };
        let universe = Universe {
            zones: vec![
                mk_zone(".", "a.rs.", vec![]),
                mk_zone("com.", "ns1.com.", vec![]),
                mk_zone("example.com.", "ns1.example.com.", vec![ZRec { owner: N::parse("www.example.com."), wild: false, rtype: T_A, data: WData::A([192, 0, 2, 1]), ttl: 300 }]),
            ],
            hosts: vec![
                UHost { name: N::parse("a.rs."), v4: vec![[10, 0, 0, 1]], v6: vec![] },
                UHost { name: N::parse("ns1.com."), v4: vec![[10, 0, 0, 2]], v6: vec![] },
                UHost { name: N::parse("ns1.example.com."), v4: vec![[10, 0, 0, 3]], v6: vec![] },
            ],
            unserved: vec![],
        };
        let depth = if tier == Tier::Thorough { 3 } else { 2 };
        let n = ALL_FAULTS.len();
        let total = n.pow(depth as u32);
        for code in 0..total {
            let mut plan = Vec::new();
            let mut c = code;
            for _ in 0..depth {
                plan.push(ALL_FAULTS[c % n]);
                c /= n;
            }
            for forwarding in [false, true] {
                emit(Case {
                    universe: universe.clone(),
                    structural: vec![],
                    plan: plan.clone(),
                    questions: vec![WQ { name: N::parse("www.example.com."), qtype: T_A, qclass: 1 }],
                    protocol: 0,
                    forwarding,
                    cache_loop: 0,
                    slow_ms: 0,
                    fwd_one_link: false,
                    tc_always: false,
                });
            }
        }
    }
    fn exhaustive(&self, _tier: Tier) -> bool {
        true
    }

    fn check(&self, c: &Case) -> Outcome {
        clock::set_virtual_nanos(Some(1_000_000_000));
        ALL_REPLIES.with(|a| a.borrow_mut().clear());
        let u = c.universe.clone();
        let zones = hints_zones(&u);
        let cache = SharedCache::new();
        let mut seeded: Vec<WRR> = Vec::new();
        for k in 0..c.cache_loop {
            let rr = WRR {
                name: N::parse(&format!("cl{k}.cached.")),
                rtype: T_CNAME,
                rclass: 1,
                ttl: 300,
                data: WData::Name(N::parse(&format!("cl{}.cached.", (k + 1) % c.cache_loop))),
            };
            cache.insert(&rwire::rr_to_impl(&rr).unwrap());
            seeded.push(rr);
        }
        let plan = c.plan.clone();
        let structural = c.structural.clone();
        let reached: Arc<Mutex<u32>> = Default::default();
        let reached2 = reached.clone();
        let u2 = u.clone();
        let forwarding = c.forwarding;
        let slow_ms = c.slow_ms;
        let fwd_one_link = c.fwd_one_link;
        let tc_always = c.tc_always;
        let mock = Mock::new(Box::new(move |ctx: &Ctx| {
            let fault = plan.get(ctx.index).copied().unwrap_or(Fault::None);
            if fault != Fault::None {
                *reached2.lock().unwrap() += 1;
            }
            let Some(req) = ctx.request else { return Action::Silence };
            let Some(q) = req.questions.first() else { return Action::Silence };
            let right: Option<WMsg> = if forwarding {
                let t = u2.truth(q);
                let row = |r: &RRow| WRR { name: r.0.clone(), rtype: r.1, rclass: 1, ttl: r.3, data: r.2.clone() };
                Some(WMsg {
                    id: 0, qr: true, opcode: 0, aa: false, tc: false, rd: true, ra: true,
                    rcode: if t.name_error { 3 } else { 0 },
                    questions: vec![q.clone()],
                    answers: if fwd_one_link && !t.chain.is_empty() { t.chain.iter().take(1).map(row).collect() } else { t.chain.iter().chain(t.finals.iter()).map(row).collect() },
                    authority: if fwd_one_link && !t.chain.is_empty() { vec![] } else { t.soa.into_iter().collect() },
                    additional: vec![],
                })
            } else {
                structural_reply(&u2, &structural, ctx.dest.ip(), q)
            };
            let Some(mut m) = right else { return Action::Silence };
            m.id = req.id;
            m.rd = req.rd;
            let label = format!("{fault:?}");
            if tc_always && !ctx.tcp {
                m.tc = true;
            }
            let mut delay = if slow_ms > 0 { u64::from(slow_ms) } else { 15u64 };
            match fault {
                Fault::None => {}
                Fault::Drop => return Action::Silence,
                Fault::Fail => return Action::Fail,
                Fault::Delay(ms) => delay = u64::from(ms),
                Fault::Garbage(seed) => {
                    let mut x = u64::from(seed) + 1;
                    let bytes: Vec<u8> = (0..40 + seed as usize).map(|_| { x = crate::gen::splitmix64(x); x as u8 }).collect();
                    return Action::Reply { bytes, delay_ms: delay, label };
                }
                Fault::Truncate(n) => {
                    let mut b = wire_reply(m, req, ctx.tcp);
                    b.truncate(n as usize);
                    return Action::Reply { bytes: b, delay_ms: delay, label };
                }
                Fault::WrongId => m.id = m.id.wrapping_add(1),
                Fault::Tc => m.tc = true,
                Fault::Rcode(r) => m.rcode = r,
                Fault::AlterQuestion => {
                    if let Some(q) = m.questions.first_mut() {
                        q.name = q.name.child(b"altered");
                    }
                }
                Fault::NotAResponse => m.qr = false,
                Fault::NoQuestion => m.questions.clear(),
                Fault::TwoQuestions => {
                    let extra = m.questions.first().cloned();
                    m.questions.extend(extra);
                }
            }
            let id = m.id;
            let tc = m.tc;
            let mut bytes = wire_reply(m, req, ctx.tcp);
            // wire_reply copies the request ID; put the faulty one back
            bytes[0] = (id >> 8) as u8;
            bytes[1] = id as u8;
            if tc {
                bytes[2] |= 0x02;
            }
            Action::Reply { bytes, delay_ms: delay, label }
        }));
        let mode = if c.forwarding {
            Mode::Forwarding { address: "192.0.2.53:53".parse::<SocketAddr>().unwrap() }
        } else {
            Mode::Recursive { protocol: protocol_of(c.protocol), port: 53 }
        };
        let mut out = Outcome::pass(false).class(if c.forwarding { "forwarding" } else { "recursive" });
        for st in &c.structural {
            out.classes.push(format!("structural:{}", format!("{st:?}").split('(').next().unwrap_or("")));
        }
        let mut questions = c.questions.clone();
        if c.cache_loop > 0 {
            questions.push(WQ { name: N::parse("cl0.cached."), qtype: T_A, qclass: 1 });
        }
        let hints = u.hints_zone();
        for q in &questions {
            mock.clear_log();
            let r = run_resolve(&mock, mode, &zones, &cache, &to_question(q));
            let log = mock.log();
            // remember what was delivered (later questions may be answered from the cache it filled)
            let _ = mock_all_replies(&mock);
            out.counts.push(("resolutions", 1));
            out.counts.push(("exchanges", log.len() as u64));
            let what = || format!("question {} {}; exchanges: {}", q.name, q.qtype, super::c07::describe(&log));
            let res = match r.result {
                Err(p) => return out.fail("resolver-panic", format!("{p}; {}", what())),
                Ok(r) => r,
            };
            if r.elapsed_ms > 60_001 {
                return out.fail("over-60s-budget", format!("resolution took {} virtual ms; {}", r.elapsed_ms, what()));
            }
            if log.len() > 60_000 {
                return out.fail("too-many-exchanges", format!("{} exchanges", log.len()));
            }
            for e in &log {
                let end = e.delivered_ms.or(e.abandoned_ms);
                match end {
                    Some(t) if t.saturating_sub(e.start_ms) > 5_000 => {
                        return out.fail("exchange-over-5s", format!("exchange #{} ({}) lasted {} ms; {}", e.index, e.action, t - e.start_ms, what()));
                    }
                    None if e.action != "transport-failure" => {
                        return out.fail("exchange-never-ended", format!("exchange #{} ({}) neither delivered nor abandoned; {}", e.index, e.action, what()));
                    }
                    _ => {}
                }
            }
            match &res {
                Ok(rec) => {
                    out.classes.push("result:ok".into());
                    let rrs = match rec {
                        ResolvedRecord::Authoritative { rrs, .. } | ResolvedRecord::NonAuthoritative { rrs, .. } => rrs.clone(),
                        ResolvedRecord::AuthoritativeNameError { .. } => vec![],
                    };
                    for rr in &rrs {
                        let w = rr_from_impl(rr);
                        let same = |x: &WRR| x.name.lower() == w.name.lower() && x.rtype == w.rtype && x.data == w.data;
                        let from_reply = mock_all_replies(&mock).iter().any(|m| m.answers.iter().chain(&m.authority).chain(&m.additional).any(same));
                        let from_hints = hints.recs.iter().any(|r| r.owner == w.name.lower() && r.rtype == w.rtype && r.data == w.data);
                        let from_seed = seeded.iter().any(same);
                        if !(from_reply || from_hints || from_seed) {
                            return out.fail("record-from-nowhere", format!("{w:?} was supplied by no reply, zone or cache entry; {}", what()));
                        }
                    }
                }
                Err(e) => out.classes.push(format!("result:{}", format!("{e:?}").split([' ', '{', '(']).next().unwrap_or(""))),
            }
        }
        clock::set_virtual_nanos(None);
        let reached = *reached.lock().unwrap();
        out.counts.push(("faults-reached", u64::from(reached)));
        out.nontrivial = reached >= 1 || !c.structural.is_empty();
        out
    }
}

/// Every reply sent so far in this case (across questions): kept by the mock log only per question,
/// so provenance is judged against the current question's log plus what the cache may hold from
/// earlier ones; to stay sound we keep all replies in a side list.
fn mock_all_replies(mock: &Mock) -> Vec<WMsg> {
    ALL_REPLIES.with(|a| {
        let mut a = a.borrow_mut();
        for e in mock.log() {
            if let Some(r) = e.reply {
                if e.delivered_ms.is_some() && !a.contains(&r) {
                    a.push(r);
                }
            }
        }
        a.clone()
    })
}

thread_local! {
    static ALL_REPLIES: std::cell::RefCell<Vec<WMsg>> = const { std::cell::RefCell::new(Vec::new()) };
}

pub fn def() -> PropertyDef {
    PropertyDef {
        id: "C08",
        level: "fault_enumeration",
        rule: "fault-plans: a generated universe (as in C07) with 0..2 structural faults planted (lame servers, circular referrals, referrals to an ancestor, withheld glue, nameserver sets of three names that do not exist, alias loops of length 1..5 in zone data and in the pre-seeded cache, alias chains of 3..40 links) and a fault plan assigning to the first 0..12 exchanges one of: none, drop, delay (0, 100 ms, 4.999 s, 5 s, 5.001 s, 9 s, 20 s, 59 s, 61 s, 70 s), garbage octets, truncated prefix of the right reply, wrong ID, TC, rcode 1/2/4/5/9, altered question, question section missing or doubled, transport failure, QR clear; one case in five has slow servers throughout (every reply after 1 s, 2.5 s, 4 s, 4.9 s or 4.999 s) and one in six truncates every UDP reply, so that long walks and chains run into the 60 s budget (the resolver's overall timeout is reached in about 0.2% of the resolutions); the forwarder answers aliases completely or link by link; recursive (all protocol modes) and forwarding mode; plus the exhaustive enumeration of all assignments of 18 faults to the first 2 (quick) / 3 (thorough) exchanges of a fixed three-level resolution, in both modes. Time is tokio's paused clock; every exchange costs at least 1 ms. Oracle: the resolution returns; virtual elapsed <= 60 s; every exchange is delivered or abandoned within 5 s of its start; no panic; every record of an Ok result occurs in a delivered reply, the hints or the pre-seeded cache. Non-trivial = at least one planned fault was reached or a structural fault is planted. Distinct by hash of the case.",
        assumptions: vec!["a real-time hang shows as the engine's wall-clock budget (exit 2), not as a violation"],
        parts: vec![Box::new(Faults)],
        budget_s: |t| t.pick(900, 10_800),
        needs_repo_bins: false,
    }
}

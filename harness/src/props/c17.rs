//! C17 — configuration parsers never crash on any text.

use dns_types::hosts::types::Hosts;
use dns_types::zones::types::Zone;
use serde::{Deserialize, Serialize};

use crate::engine::{catch, Outcome, Prop, PropertyDef, Tier};
use crate::gen::Gen;
use crate::ztext::{render, RenderOpts};

#[derive(Debug, Clone, PartialEq, Eq, Hash, Serialize, Deserialize)]
pub struct TextCase {
    pub text: String,
}

/// The oracle: both parsers return; accepted values can be written back out.
pub fn judge_text(text: &str) -> Result<(bool, bool), (String, String)> {
    let z = catch(|| Zone::deserialise(text)).map_err(|p| ("zone-parser-panic".to_string(), format!("{p}\n--- text ---\n{}", clip(text))))?;
    let zone_ok = z.is_ok();
    if let Ok(zone) = z {
        let s = catch(|| zone.serialise()).map_err(|p| ("zone-serialiser-panic".to_string(), format!("{p}\n--- text ---\n{}", clip(text))))?;
        // what was accepted must at least be a parseable file again
        let _ = catch(|| Zone::deserialise(&s)).map_err(|p| ("zone-parser-panic".to_string(), format!("{p} on serialised text\n{}", clip(&s))))?;
    }
    let h = catch(|| Hosts::deserialise(text)).map_err(|p| ("hosts-parser-panic".to_string(), format!("{p}\n--- text ---\n{}", clip(text))))?;
    let hosts_ok = h.is_ok();
    if let Ok(hosts) = h {
        let s = catch(|| hosts.serialise()).map_err(|p| ("hosts-serialiser-panic".to_string(), p))?;
        let _ = catch(|| Hosts::deserialise(&s)).map_err(|p| ("hosts-parser-panic".to_string(), p))?;
        let _ = catch(|| Zone::from(hosts)).map_err(|p| ("hosts-to-zone-panic".to_string(), p))?;
    }
    Ok((zone_ok, hosts_ok))
}

fn clip(s: &str) -> String {
    if s.len() <= 2000 {
        s.to_string()
    } else {
        let mut end = 2000;
        while !s.is_char_boundary(end) {
            end -= 1;
        }
        format!("{}… [{} bytes]", &s[..end], s.len())
    }
}

const ODD_CHARS: [char; 24] = [
    '\0', '\u{1}', '\t', '\n', '\r', ' ', '"', '\\', ';', '(', ')', '#', '@', '*', '$', '.', '%', ':',
    '\u{7f}', '\u{85}', '\u{a0}', '\u{2028}', '\u{202e}', '\u{1f600}',
];

const FRAGMENTS: [&str; 40] = [
    "$ORIGIN", "$INCLUDE", "IN", "CH", "SOA", "A", "AAAA", "NS", "CNAME", "MX", "TXT", "SRV", "HINFO", "MINFO", "NULL", "WKS", "PTR",
    "TYPE65535", "TYPE99999999999", "CLASS1", "example.com.", "*.", "*", "@", "1.2.3.4", "::1", "fe80::1%eth0", "300", "4294967295",
    "4294967296", "99999999999999999999", "\\", "\\0", "\\00", "\\000", "\\255", "\\256", "\\999", "\"", "\"\"",
];

fn gen_soup(g: &mut Gen) -> String {
    let n = g.range(0, 40);
    let mut s = String::new();
    for _ in 0..n {
        match g.weighted(&[4, 4, 2, 1, 1]) {
            0 => s.push_str(g.pick(&FRAGMENTS)),
            1 => s.push(g.pick(&ODD_CHARS)),
            2 => s.push((b'a' + g.below(26) as u8) as char),
            3 => {
                // any scalar value
                if let Some(c) = char::from_u32(g.u32() % 0x11_0000) {
                    s.push(c);
                }
            }
            _ => s.push(' '),
        }
        if g.chance(1, 3) {
            s.push(g.pick(&[' ', ' ', '\t', '\n']));
        }
    }
    s
}

/// Grammar-aware damage to a valid file.
fn mutate(g: &mut Gen, text: &str) -> String {
    // token-level damage first (one time in three): drop, duplicate or swap a
    // whitespace-separated token of one line, or cut the line after a token -
    // directives and records with the wrong number of fields
    let mut text = text.to_string();
    if g.chance(1, 3) {
        let mut lines: Vec<String> = text.split('\n').map(|l| l.to_string()).collect();
        if !lines.is_empty() {
            let li = g.below(lines.len());
            let mut toks: Vec<String> = lines[li].split(' ').map(|t| t.to_string()).collect();
            if !toks.is_empty() {
                let ti = g.below(toks.len());
                match g.below(4) {
                    0 => {
                        toks.remove(ti);
                    }
                    1 => {
                        let t = toks[ti].clone();
                        toks.insert(ti, t);
                    }
                    2 => {
                        let tj = g.below(toks.len());
                        toks.swap(ti, tj);
                    }
                    _ => toks.truncate(ti + 1),
                }
                lines[li] = toks.join(" ");
            }
            text = lines.join("\n");
        }
        if g.bool() {
            return text;
        }
    }
    let mut chars: Vec<char> = text.chars().collect();
    let k = g.range(1, 3);
    for _ in 0..k {
        if chars.is_empty() {
            chars.push(g.pick(&ODD_CHARS));
            continue;
        }
        let i = g.below(chars.len());
        match g.weighted(&[3, 3, 2, 2, 2, 2, 1]) {
            0 => {
                chars.remove(i);
            }
            1 => {
                let c = chars[i];
                chars.insert(i, c);
            }
            2 => {
                let c = g.pick(&ODD_CHARS);
                chars.insert(i, c);
            }
            3 => {
                let frag: Vec<char> = g.pick(&FRAGMENTS).chars().collect();
                for (j, c) in frag.into_iter().enumerate() {
                    chars.insert(i + j, c);
                }
            }
            4 => chars.truncate(i),
            5 => {
                // remove the first delimiter of a kind after i
                let d = g.pick(&['"', '(', ')', '\\', '\n']);
                if let Some(p) = chars[i..].iter().position(|c| *c == d) {
                    chars.remove(i + p);
                }
            }
            _ => {
                let c = chars[i];
                chars[i] = if c.is_ascii_digit() { '9' } else { g.pick(&ODD_CHARS) };
            }
        }
    }
    chars.into_iter().collect()
}

pub struct Texts;

impl Prop for Texts {
    type Case = TextCase;
    fn name(&self) -> &'static str {
        "texts"
    }
    fn tape_len(&self) -> usize {
        800
    }
    fn cases(&self, tier: Tier) -> u64 {
        tier.pick(600_000, 40_000_000)
    }
    fn generate(&self, g: &mut Gen) -> TextCase {
        let text = match g.weighted(&[3, 4, 3, 1]) {
            0 => gen_soup(g),
            3 => {
                // names at the length limit: a long $ORIGIN, then relative and
                // absolute owners and RDATA names that reach 250..260 octets
                // only once the origin is added
                let lab = |n: usize, c: char| c.to_string().repeat(n.clamp(1, 63));
                let origin_len = g.range(180, 250);
                let mut origin = String::new();
                let mut left = origin_len;
                while left > 1 {
                    let l = left.min(64) - 1;
                    origin.push_str(&lab(l, 'o'));
                    origin.push('.');
                    left -= l + 1;
                }
                let rel = g.range(1, 80);
                let rel_name = if rel > 63 { format!("{}.{}", lab(63, 'r'), lab(rel - 63, 'r')) } else { lab(rel, 'r') };
                let mut t = String::new();
                if g.chance(1, 4) {
                    t.push_str("@ IN SOA ns. admin. 1 2 3 4 5\n");
                }
                t.push_str(&format!("$ORIGIN {origin}\n"));
                match g.below(4) {
                    0 => t.push_str(&format!("{rel_name} 300 IN A 1.2.3.4\n")),
                    1 => t.push_str(&format!("*.{rel_name} 300 IN A 1.2.3.4\n")),
                    2 => t.push_str(&format!("a 300 IN NS {rel_name}\n")),
                    _ => t.push_str(&format!("a 300 IN MX 10 {rel_name}\n$ORIGIN {rel_name}\nb 300 IN A 1.2.3.4\n")),
                }
                // the same names as hosts(5) text on a second line (hosts names are relative to the root)
                t.push_str(&format!("1.2.3.4 {rel_name}.{origin}\n"));
                if g.chance(1, 3) { mutate(g, &t) } else { t }
            }
            1 => {
                let zone = super::c11::gen_denotation(g, true);
                let (t, _) = render(g, &zone, &RenderOpts { layout_noise: true, inheritance: true, origin_changes: true });
                mutate(g, &t)
            }
            _ => {
                let c = super::c14::gen_case(g);
                mutate(g, &c.text())
            }
        };
        TextCase { text }
    }
    fn enumerate(&self, tier: Tier, emit: &mut dyn FnMut(TextCase)) {
        // very long tokens, lines and nestings
        let big = if tier == Tier::Thorough { 4_000_000 } else { 1_000_000 };
        let reps: Vec<(&str, usize)> = vec![
            ("a", big),
            ("(", 100_000),
            (")", 100_000),
            ("( ", 100_000),
            ("\"", 100_001),
            ("\\", big),
            ("\\0", big / 2),
            ("\\000", big / 4),
            ("a.", big / 2),
            (".", big),
            ("a ", big / 2),
            ("\n", big),
            (";", big),
            ("#", big),
            ("$ORIGIN a.\n", 50_000),
            ("a. 300 IN A 1.2.3.4\n", 50_000),
            ("1.2.3.4 a\n", 50_000),
            ("* ", 100_000),
            ("@ ", 100_000),
            ("9", big),
            ("\u{e9}", big / 2),
            ("\0", big),
        ];
        for (unit, n) in reps {
            emit(TextCase { text: unit.repeat(n) });
            emit(TextCase { text: format!("a. 300 IN TXT {}", unit.repeat(n)) });
            emit(TextCase { text: format!("1.2.3.4 {}", unit.repeat(n)) });
            emit(TextCase { text: format!("a. 300 IN TXT \"{}\"", unit.repeat(n)) });
        }
        // every character of the odd set in every small context
        for c in ODD_CHARS {
            for ctx in ["{}", "a{}b 300 IN A 1.2.3.4", "a. 300 IN TXT {}", "a. 300 IN TXT \"{}\"", "a. 300 IN TXT \\{}", "1.2.3.4 a{}b", "1.2.3.4{} a", "$ORIGIN {}", "a. {} IN A 1.2.3.4"] {
                emit(TextCase { text: ctx.replace("{}", &c.to_string()) });
            }
        }
    }
    fn check(&self, c: &TextCase) -> Outcome {
        let interesting = c.text.contains(|ch| matches!(ch, '\\' | '"' | '(' | ')'));
        match judge_text(&c.text) {
            Ok((z, h)) => Outcome::pass(interesting)
                .class(if z { "zone:accepted" } else { "zone:rejected" })
                .class(if h { "hosts:accepted" } else { "hosts:rejected" })
                .class(if c.text.len() > 100_000 { "huge" } else { "small" }),
            Err((s, d)) => Outcome::pass(interesting).fail(s, d),
        }
    }
}

/// The loader on a directory holding the text (and a non-UTF-8 file).
pub struct Loader;

impl Prop for Loader {
    type Case = TextCase;
    fn name(&self) -> &'static str {
        "loader"
    }
    fn tape_len(&self) -> usize {
        800
    }
    fn cases(&self, tier: Tier) -> u64 {
        tier.pick(1_500, 60_000)
    }
    fn generate(&self, g: &mut Gen) -> TextCase {
        Texts.generate(g)
    }
    fn check(&self, c: &TextCase) -> Outcome {
        use std::sync::atomic::{AtomicU64, Ordering};
        static N: AtomicU64 = AtomicU64::new(0);
        let dir = std::path::PathBuf::from(format!("/verif/target/tmp/c17-{}-{}", std::process::id(), N.fetch_add(1, Ordering::Relaxed)));
        let _ = std::fs::remove_dir_all(&dir);
        let zd = dir.join("z");
        let hd = dir.join("h");
        let out = Outcome::pass(true);
        if std::fs::create_dir_all(&zd).is_err() || std::fs::create_dir_all(&hd).is_err() {
            return out.fail("harness-io", "cannot create scratch directory");
        }
        let _ = std::fs::write(zd.join("text.zone"), &c.text);
        let _ = std::fs::write(hd.join("text.hosts"), &c.text);
        let binary = N.load(Ordering::Relaxed) % 3 == 0;
        if binary {
            let _ = std::fs::write(zd.join("binary.zone"), [0xffu8, 0xfe, 0x00, 0xc3]);
        }
        let res = catch(|| {
            let rt = tokio::runtime::Builder::new_current_thread().enable_all().build().unwrap();
            rt.block_on(resolved::fs::load_zone_configuration(&[], &[hd.clone()], &[], &[zd.clone()]))
        });
        let _ = std::fs::remove_dir_all(&dir);
        match res {
            Err(p) => out.fail("loader-panic", p),
            Ok(Some(_)) if binary => out.fail("loaded-despite-bad-file", "a non-UTF-8 zone file was ignored"),
            Ok(Some(_)) => out.class("loaded"),
            Ok(None) => out.class("refused"),
        }
    }
}

pub fn classify_text(b: &[u8]) -> Option<(String, String, &'static str, serde_json::Value)> {
    let text = String::from_utf8_lossy(b).to_string();
    match judge_text(&text) {
        Ok(_) => None,
        Err((s, d)) => Some((s, d, "texts", serde_json::json!({ "text": text }))),
    }
}

pub fn def() -> PropertyDef {
    PropertyDef {
        id: "C17",
        level: "exploration",
        rule: "texts: (a) token soup of master-file and hosts-file fragments (directives, mnemonics, numbers at and beyond u32, escapes incl. \\2, \\25, \\256, \\999, quotes, parentheses) mixed with NUL, control characters, U+0085, U+2028, RTL override, astral characters and arbitrary scalar values; (b) valid zone files from the C11 renderer and (c) valid hosts files from the C14 generator, each damaged by 1..3 grammar-aware mutations (drop/duplicate a character, insert an odd character or fragment, truncate, remove a quote/parenthesis/backslash/newline, bump a digit); plus an enumerated set of very long inputs (1 MB tokens, lines, escapes; 100k parentheses; 50k entries) and every odd character in every small context. Both Zone::deserialise and Hosts::deserialise must return (no panic; stack overflow or abort is caught as a worker crash; a hang shows as exit 2) and accepted values must survive serialise + re-parse. loader: load_zone_configuration on a scratch directory holding the text as zone and hosts file (every third case with an extra non-UTF-8 file) returns without panicking, and returns None when the non-UTF-8 file is present. Non-trivial = the text contains an escape, quote or parenthesis; distinct by hash of the text.",
        assumptions: vec!["runs on a 2 MiB thread in a child process, release profile"],
        parts: vec![
            Box::new(crate::fuzzrun::CorpusPart { name: "corpus-zone", target: "zone_total", classify: classify_text }),
            Box::new(crate::fuzzrun::FuzzPart { name: "fuzz-zone_total", target: "zone_total", runs_per_job: 500_000, jobs: 8, max_len: 4_096, classify: classify_text }),
            Box::new(Texts),
            Box::new(Loader),
        ],
        budget_s: |t| t.pick(900, 10_800),
        needs_repo_bins: false,
    }
}

//! One module per property.

use crate::engine::PropertyDef;

pub mod c02;
pub mod c03;
pub mod c04;
pub mod c05;
pub mod c15;
pub mod c16;

pub fn all() -> Vec<PropertyDef> {
    vec![c02::def(), c03::def(), c04::def(), c05::def(), c15::def(), c16::def()]
}

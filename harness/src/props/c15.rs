//! C15 — cache pruning is exact, bounded and least-recently-used.

use std::collections::BTreeSet;

use dns_resolver::cache::{verif, SharedCache};
use dns_types::protocol::types::*;
use serde::{Deserialize, Serialize};

use crate::cachemodel::*;
use crate::engine::{Outcome, Prop, PropertyDef, Tier};
use crate::gen::Gen;

pub struct Histories;

/// Root-cause signature (DESIGN Appendix D): F7.
fn refine(sig: &str, stats: &Stats) -> String {
    if (stats.reinsert_multi_type_then_prune && (sig == "expired-left-behind" || sig == "expired-count"))
        || (stats.reinsert_multi_type && sig == "next-expiry-not-min")
    {
        return "next-expiry-per-type".to_string();
    }
    sig.to_string()
}

impl Prop for Histories {
    type Case = History;
    fn name(&self) -> &'static str {
        "histories"
    }
    fn tape_len(&self) -> usize {
        400
    }
    fn cases(&self, tier: Tier) -> u64 {
        tier.pick(150_000, 10_000_000)
    }
    fn generate(&self, g: &mut Gen) -> History {
        let mut h = gen_history(
            g,
            &HistoryOpts {
                max_ops: 80,
                weights: [8, 3, 1, 1, 3, 4],
                max_size: 12,
            },
        );
        h.plain_cache = false;
        h
    }
    fn check(&self, h: &History) -> Outcome {
        let (findings, stats) = run_history(h);
        let nt = stats.prunes_expire_and_evict > 0 || stats.reinsert_multi_type_then_prune;
        let mut out = Outcome::pass(nt)
            .count("ops", h.ops.len() as u64)
            .count("prunes-expiring", stats.prunes_expire + stats.prunes_expire_and_evict)
            .count("prunes-evicting", stats.prunes_evict + stats.prunes_expire_and_evict)
            .count("prunes-expiring-and-evicting", stats.prunes_expire_and_evict);
        if stats.reinsert_multi_type_then_prune {
            out.classes.push("reinsert-into-multi-type-name-then-prune".into());
        }
        for (fam, sig, detail) in findings {
            if fam == "prune" {
                return out.fail(refine(&sig, &stats), detail);
            }
        }
        out
    }
}

/// Several OS threads hammer one `SharedCache`; at quiescence the structure
/// must be consistent and the record count exact.
#[derive(Debug, Clone, PartialEq, Eq, Hash, Serialize, Deserialize)]
pub struct StressCase {
    pub threads: u8,
    pub ops_per_thread: u16,
    pub desired_size: u8,
    pub seeds: Vec<u32>,
}

pub struct Stress;

impl Prop for Stress {
    type Case = StressCase;
    fn name(&self) -> &'static str {
        "stress"
    }
    fn tape_len(&self) -> usize {
        16
    }
    fn cases(&self, tier: Tier) -> u64 {
        tier.pick(64, 4_000)
    }
    fn generate(&self, g: &mut Gen) -> StressCase {
        let threads = g.range(2, 8) as u8;
        StressCase {
            threads,
            ops_per_thread: g.pick(&[200u16, 1000, 2000]),
            desired_size: g.range(1, 12) as u8,
            seeds: (0..threads).map(|_| g.u32()).collect(),
        }
    }
    fn check(&self, c: &StressCase) -> Outcome {
        verif::set_virtual_nanos(None);
        let cache = SharedCache::with_desired_size(c.desired_size as usize);
        std::thread::scope(|s| {
            for t in 0..c.threads as usize {
                let cache = cache.clone();
                let seed = c.seeds.get(t).copied().unwrap_or(1);
                let n = c.ops_per_thread;
                s.spawn(move || {
                    // the schedule is the OS's; the operation stream per
                    // thread is a pure function of the case
                    let mut x = u64::from(seed) | 1;
                    for _ in 0..n {
                        x = crate::gen::splitmix64(x);
                        let name = (x >> 8) as u8 % 4;
                        let rtype = (x >> 16) as u8 % 4;
                        let val = (x >> 24) as u8 % 3;
                        match x % 10 {
                            0..=4 => cache.insert(&ResourceRecord {
                                name: name_of(name),
                                rtype_with_data: data_of(rtype, val),
                                rclass: RecordClass::IN,
                                ttl: if x >> 40 & 7 == 0 { 0 } else { 300 },
                            }),
                            5..=6 => {
                                let _ = cache.get(&name_of(name), qtype_of(rtype));
                            }
                            7 => {
                                let _ = cache.get(&name_of(name), QueryType::Wildcard);
                            }
                            8 => {
                                let _ = cache.prune();
                            }
                            _ => std::thread::yield_now(),
                        }
                    }
                });
            }
        });
        let out = Outcome::pass(true)
            .class(format!("threads:{}", c.threads))
            .count("thread-ops", u64::from(c.threads) * u64::from(c.ops_per_thread));
        let snap = cache.verif_snapshot();
        let distinct: BTreeSet<(DomainName, RecordTypeWithData)> = snap.entries.iter().map(|e| (e.0.clone(), e.2.clone())).collect();
        if snap.current_size != distinct.len() || snap.entries.len() != distinct.len() {
            return out.fail("size-accounting", format!("after concurrent use: current_size {} but {} distinct entries ({} stored)", snap.current_size, distinct.len(), snap.entries.len()));
        }
        let part_sum: usize = snap.partitions.iter().map(|p| p.3).sum();
        if part_sum != snap.current_size {
            return out.fail("size-accounting", format!("after concurrent use: per-name sizes sum to {part_sum}, current_size {}", snap.current_size));
        }
        let pk: BTreeSet<&DomainName> = snap.partitions.iter().map(|p| &p.0).collect();
        let ak: BTreeSet<&DomainName> = snap.access_queue.iter().map(|p| &p.0).collect();
        let ek: BTreeSet<&DomainName> = snap.expiry_queue.iter().map(|p| &p.0).collect();
        if pk != ak || pk != ek {
            return out.fail("queue-keys", "after concurrent use: queues and partitions hold different names");
        }
        let (_, size, _, _) = cache.prune();
        if size > c.desired_size as usize {
            return out.fail("over-size-after-prune", format!("{size} records after a final prune, desired {}", c.desired_size));
        }
        out
    }
}

/// Several threads insert (singly and in batches) into one `SharedCache` that
/// is far larger than everything inserted, with TTLs far beyond the run: at
/// quiescence every record inserted must be there (nothing may be dropped
/// because another thread happened to hold the cache).
pub struct NothingLost;

impl Prop for NothingLost {
    type Case = StressCase;
    fn name(&self) -> &'static str {
        "nothing-lost"
    }
    fn tape_len(&self) -> usize {
        16
    }
    fn cases(&self, tier: Tier) -> u64 {
        tier.pick(48, 2_000)
    }
    fn generate(&self, g: &mut Gen) -> StressCase {
        let threads = g.range(2, 8) as u8;
        StressCase { threads, ops_per_thread: g.pick(&[100u16, 400, 1000]), desired_size: 0, seeds: (0..threads).map(|_| g.u32()).collect() }
    }
    fn check(&self, c: &StressCase) -> Outcome {
        verif::set_virtual_nanos(None);
        let cache = SharedCache::with_desired_size(1_000_000);
        let inserted: std::sync::Mutex<BTreeSet<(DomainName, RecordTypeWithData)>> = Default::default();
        std::thread::scope(|s| {
            for t in 0..c.threads as usize {
                let cache = cache.clone();
                let seed = c.seeds.get(t).copied().unwrap_or(1);
                let n = c.ops_per_thread;
                let inserted = &inserted;
                s.spawn(move || {
                    let mut x = u64::from(seed) | 1;
                    let mut mine = BTreeSet::new();
                    for _ in 0..n {
                        x = crate::gen::splitmix64(x);
                        let rr = |y: u64| ResourceRecord {
                            name: name_of((y >> 8) as u8 % 4),
                            rtype_with_data: data_of((y >> 16) as u8 % 4, (y >> 24) as u8),
                            rclass: RecordClass::IN,
                            ttl: 100_000,
                        };
                        match x % 4 {
                            0 => {
                                let r = rr(x);
                                mine.insert((r.name.clone(), r.rtype_with_data.clone()));
                                cache.insert(&r);
                            }
                            1 | 2 => {
                                // a batch, as the resolvers cache a reply
                                let k = 1 + (x >> 32) as usize % 60;
                                let mut y = x;
                                let batch: Vec<ResourceRecord> = (0..k)
                                    .map(|_| {
                                        y = crate::gen::splitmix64(y);
                                        rr(y)
                                    })
                                    .collect();
                                for r in &batch {
                                    mine.insert((r.name.clone(), r.rtype_with_data.clone()));
                                }
                                cache.insert_all(&batch);
                            }
                            _ => {
                                let _ = cache.get(&name_of((x >> 8) as u8 % 4), QueryType::Wildcard);
                            }
                        }
                    }
                    inserted.lock().unwrap().extend(mine);
                });
            }
        });
        let want = inserted.into_inner().unwrap();
        let snap = cache.verif_snapshot();
        let have: BTreeSet<(DomainName, RecordTypeWithData)> = snap.entries.iter().map(|e| (e.0.clone(), e.2.clone())).collect();
        let out = Outcome::pass(true).class(format!("threads:{}", c.threads)).count("records-inserted", want.len() as u64);
        if let Some(lost) = want.iter().find(|r| !have.contains(*r)) {
            let n = want.iter().filter(|r| !have.contains(*r)).count();
            return out.fail("insert-lost-under-contention", format!("{n} of {} inserted records are not in the cache (size 1,000,000, TTL 100,000 s), e.g. {:?}", want.len(), lost));
        }
        if have.len() != want.len() || snap.current_size != have.len() {
            return out.fail("size-accounting", format!("{} records inserted, {} stored, current_size {}", want.len(), have.len(), snap.current_size));
        }
        out
    }
}

pub fn def() -> PropertyDef {
    PropertyDef {
        id: "C15",
        level: "exploration",
        rule: "histories: 1..80 operations (insert, re-insert with new TTL into names holding other types, typed/ANY/unchecked lookups, prune, clock advance) over 4 names x 4 types x 3 values on the virtual clock (time advances >= 1 ns between operations, so use order is strict), cache sizes 1..12. A sequential model with LRU stamps judges every prune: reported (overflow, size, expired, evicted) equal the model's; no record with expiry <= now remains; size <= desired; whole names only; an evicted name was not definitely used later than a surviving one (definite use = insert or lookup returning a record; empty lookups count as possible uses); eviction only while over size. After every operation: current_size = number of distinct (name,type,data) = sum of per-name sizes, both queues hold exactly the live names with the stored priorities, next_expiry = earliest expiry of the name (documented invariants in cache.rs). stress: 2..8 OS threads x 200..2000 operations on one SharedCache, the same structural invariants at quiescence. nothing-lost: 2..8 threads insert single records and batches of 1..60 (insert_all) into a cache of size 1,000,000 with TTL 100,000 s; at quiescence exactly the records inserted are stored. Non-trivial = a prune that both expires and evicts, or a re-insert into a multi-type name followed by a prune (histories); every stress run. Distinct by hash of the case.",
        assumptions: vec![
            "thread schedules are the operating system's, not controlled (DESIGN section 7)",
            "the model adopts the implementation's eviction choice after validating it",
        ],
        parts: vec![Box::new(Histories), Box::new(Stress), Box::new(NothingLost)],
        budget_s: |t| t.pick(600, 7200),
        needs_repo_bins: false,
    }
}

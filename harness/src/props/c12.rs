//! C12 — configuration files compose by union, with the last SOA winning.

use std::collections::{BTreeMap, BTreeSet};
use std::path::PathBuf;

use dns_types::hosts::types::Hosts;
use dns_types::protocol::types::*;
use dns_types::zones::types::{Zone, ZoneResult, Zones};
use serde::{Deserialize, Serialize};

use crate::engine::{Outcome, Prop, PropertyDef, Tier};
use crate::gen::Gen;
use crate::rwire::WData;
use crate::rzone::*;
use crate::util::N;

#[derive(Debug, Clone, PartialEq, Eq, Hash, Serialize, Deserialize)]
pub struct FileSpec {
    /// None = given explicitly on the command line; Some(d) = lives in directory d
    pub dir: Option<u8>,
    pub file_name: String,
}

#[derive(Debug, Clone, PartialEq, Eq, Hash, Serialize, Deserialize)]
pub struct Case {
    pub zones: Vec<(FileSpec, ZoneModel)>,
    /// hosts files: (name, address text)
    pub hosts: Vec<(FileSpec, Vec<(String, String)>)>,
    pub on_disk: bool,
    /// on disk only: 0 none, 1 syntax error in a zone file, 2 non-UTF-8 file,
    /// 3 missing explicit file, 4 missing directory, 5 bad hosts file
    pub fault: u8,
}

const FILE_NAMES: [&str; 8] = ["10-base", "2-extra", "z-last", "A-upper", "b.zone", "a.zone", "00", "m"];

fn gen_files(g: &mut Gen, n: usize) -> Vec<FileSpec> {
    let mut used = BTreeSet::new();
    let mut v = Vec::new();
    for _ in 0..n {
        let dir = if g.chance(1, 2) { None } else { Some(g.below(2) as u8) };
        let mut name = g.pick(&FILE_NAMES).to_string();
        while !used.insert((dir, name.clone())) {
            name.push('x');
        }
        v.push(FileSpec { dir, file_name: name });
    }
    v
}

pub struct Compose;

/// Order in which the loader applies the files: explicit ones as given, then
/// each directory's files in sorted order, directories in order.
fn application_order<T: Clone>(files: &[(FileSpec, T)]) -> Vec<(FileSpec, T)> {
    let mut out: Vec<(FileSpec, T)> = files.iter().filter(|f| f.0.dir.is_none()).cloned().collect();
    for d in 0..2u8 {
        let mut in_dir: Vec<(FileSpec, T)> = files.iter().filter(|f| f.0.dir == Some(d)).cloned().collect();
        in_dir.sort_by(|a, b| a.0.file_name.as_bytes().cmp(b.0.file_name.as_bytes()));
        out.extend(in_dir);
    }
    out
}

/// The union, per apex, of what the files define; last SOA wins.
pub fn expected_union(zones: &[ZoneModel]) -> BTreeMap<N, ZoneModel> {
    let mut map: BTreeMap<N, ZoneModel> = BTreeMap::new();
    for z in zones {
        let apex = z.apex.lower();
        let eff: Vec<ZRec> = z.effective().into_iter().filter(|r| r.rtype != T_SOA || r.wild || r.owner != apex).collect();
        let e = map.entry(apex.clone()).or_insert_with(|| ZoneModel { apex: apex.clone(), soa: None, recs: Vec::new() });
        if z.soa.is_some() {
            e.soa = z.soa.clone();
        }
        for r in eff {
            if !e.recs.contains(&r) {
                e.recs.push(r);
            }
        }
    }
    map
}

/// Compare a merged zone with the expected union (flat content; TTLs are
/// those each file gave its records, so no further clamping).
fn compare_union(want: &ZoneModel, got: &Zone) -> Result<(), (String, String)> {
    let g = ZoneModel::from_impl(got);
    if g.soa != want.soa {
        return Err(("wrong-soa".into(), format!("zone {}: SOA {:?}, expected {:?}", want.apex, g.soa, want.soa)));
    }
    let mut want_recs = want.recs.clone();
    if let Some(s) = &want.soa {
        want_recs.push(ZRec { owner: want.apex.clone(), wild: false, rtype: T_SOA, data: s.data(), ttl: s.minimum });
    }
    want_recs.sort();
    want_recs.dedup();
    let mut got_recs = g.recs.clone();
    got_recs.sort();
    let soas = got_recs.iter().filter(|r| r.rtype == T_SOA).count();
    if soas > usize::from(want.soa.is_some()) {
        return Err(("merge-keeps-old-soa".into(), format!("zone {} holds {soas} SOA records after merging", want.apex)));
    }
    if got_recs != want_recs {
        let missing: Vec<_> = want_recs.iter().filter(|r| !got_recs.contains(r)).collect();
        let extra: Vec<_> = got_recs.iter().filter(|r| !want_recs.contains(r)).collect();
        let sig = if !missing.is_empty() && missing.iter().all(|r| r.wild) && extra.is_empty() {
            "merge-drops-wildcards"
        } else if missing.is_empty() && extra.is_empty() {
            // same set, different multiset: a record is stored more than once
            "duplicates-not-removed"
        } else {
            "union-differs"
        };
        return Err((sig.into(), format!("zone {}: missing {:?}, unexpected {:?}", want.apex, missing.iter().take(3).collect::<Vec<_>>(), extra.iter().take(3).collect::<Vec<_>>())));
    }
    Ok(())
}

fn hosts_of(entries: &[(String, String)]) -> String {
    entries.iter().map(|(n, a)| format!("{a} {n}\n")).collect()
}

fn scratch_dir() -> PathBuf {
    use std::sync::atomic::{AtomicU64, Ordering};
    static N: AtomicU64 = AtomicU64::new(0);
    let p = PathBuf::from(format!(
        "/verif/target/tmp/c12-{}-{}",
        std::process::id(),
        N.fetch_add(1, Ordering::Relaxed)
    ));
    let _ = std::fs::remove_dir_all(&p);
    std::fs::create_dir_all(&p).expect("scratch dir");
    p
}

impl Prop for Compose {
    type Case = Case;
    fn name(&self) -> &'static str {
        "compose"
    }
    fn tape_len(&self) -> usize {
        900
    }
    fn cases(&self, tier: Tier) -> u64 {
        tier.pick(24_000, 1_500_000)
    }
    fn generate(&self, g: &mut Gen) -> Case {
        let nz = g.range(1, 5);
        let specs = gen_files(g, nz);
        // a few apexes so that files share them
        let apexes = [N::parse("example.com."), N::parse("example.com."), N::parse("a.example.com."), N::root()];
        let mut zones = Vec::new();
        for s in specs {
            let authoritative = g.chance(3, 4);
            let apex = if authoritative { g.pick(&apexes) } else { N::root() };
            let soa = if authoritative {
                let mut soa = gen_soa(g, &apex);
                soa.serial = g.below(3) as u32;
                Some(soa)
            } else {
                None
            };
            let z = gen_zone(g, apex, soa, &ZoneGenOpts { max_recs: 6, allow_wild: true, enforce_scope: true });
            zones.push((s, z));
        }
        let nh = g.range(0, 3);
        let hspecs = gen_files(g, nh);
        let mut hosts = Vec::new();
        for s in hspecs {
            let k = g.range(0, 4);
            let entries = (0..k)
                .map(|_| {
                    let name = g.pick(&["printer.lan", "nas.lan", "a.example.com", "blocked.example"]).to_string();
                    let addr = if g.chance(2, 3) { format!("10.1.0.{}", g.below(3)) } else { format!("fd00::{}", g.below(3)) };
                    (name, addr)
                })
                .collect();
            hosts.push((s, entries));
        }
        let on_disk = g.chance(1, 6);
        let fault = if on_disk && g.chance(1, 4) { g.range(1, 5) as u8 } else { 0 };
        Case { zones, hosts, on_disk, fault }
    }

    fn check(&self, c: &Case) -> Outcome {
        let mut out = Outcome::pass(false);
        let zones_in_order: Vec<ZoneModel> = if c.on_disk {
            application_order(&c.zones).into_iter().map(|x| x.1).collect()
        } else {
            c.zones.iter().map(|x| x.1.clone()).collect()
        };
        let hosts_in_order: Vec<Vec<(String, String)>> = if c.on_disk {
            application_order(&c.hosts).into_iter().map(|x| x.1).collect()
        } else {
            c.hosts.iter().map(|x| x.1.clone()).collect()
        };
        // non-triviality: two inputs share an apex and differ in wildcards or SOA
        let mut by_apex: BTreeMap<N, Vec<&ZoneModel>> = BTreeMap::new();
        for z in &zones_in_order {
            by_apex.entry(z.apex.lower()).or_default().push(z);
        }
        for zs in by_apex.values() {
            if zs.len() >= 2 {
                out.classes.push("shared-apex".into());
                let wild: BTreeSet<Vec<&ZRec>> = zs.iter().map(|z| z.recs.iter().filter(|r| r.wild).collect()).collect();
                let soas: BTreeSet<String> = zs.iter().map(|z| format!("{:?}", z.soa)).collect();
                if wild.len() > 1 || soas.len() > 1 {
                    out.nontrivial = true;
                }
            }
        }
        out.classes.push(if c.on_disk { "on-disk".into() } else { "in-memory".into() });

        // expected hosts: later file wins per (name, family)
        let mut hv4: BTreeMap<N, std::net::Ipv4Addr> = BTreeMap::new();
        let mut hv6: BTreeMap<N, std::net::Ipv6Addr> = BTreeMap::new();
        for f in &hosts_in_order {
            for (n, a) in f {
                let name = N::parse(n).lower();
                match a.parse::<std::net::IpAddr>().unwrap() {
                    std::net::IpAddr::V4(x) => {
                        hv4.insert(name, x);
                    }
                    std::net::IpAddr::V6(x) => {
                        hv6.insert(name, x);
                    }
                }
            }
        }
        // the hosts zone is one more non-authoritative root zone, applied last
        let mut all_zones = zones_in_order.clone();
        let mut hz = ZoneModel { apex: N::root(), soa: None, recs: Vec::new() };
        for (n, a) in &hv4 {
            hz.recs.push(ZRec { owner: n.clone(), wild: false, rtype: T_A, data: WData::A(a.octets()), ttl: 5 });
        }
        for (n, a) in &hv6 {
            hz.recs.push(ZRec { owner: n.clone(), wild: false, rtype: T_AAAA, data: WData::Aaaa(a.octets()), ttl: 5 });
        }
        all_zones.push(hz);
        let expected = expected_union(&all_zones);

        // build the configuration
        let merged: Option<Zones> = if c.on_disk {
            let dir = scratch_dir();
            let res = build_on_disk(c, &dir);
            let _ = std::fs::remove_dir_all(&dir);
            match res {
                Ok(z) => z,
                Err(e) => return out.fail("harness-io", e),
            }
        } else {
            let mut zones = Zones::new();
            for z in &zones_in_order {
                // each file is parsed on its own
                let text = render_plain(z);
                match Zone::deserialise(&text) {
                    Ok(z) => zones.insert_merge(z),
                    Err(e) => return out.fail("valid-text-rejected", format!("{e:?}\n{text}")),
                }
            }
            let mut combined = Hosts::default();
            for f in &hosts_in_order {
                match Hosts::deserialise(&hosts_of(f)) {
                    Ok(h) => combined.merge(h),
                    Err(e) => return out.fail("valid-hosts-rejected", format!("{e:?}")),
                }
            }
            zones.insert_merge(combined.into());
            Some(zones)
        };

        if c.on_disk && c.fault != 0 {
            out.classes.push(format!("fault:{}", c.fault));
            return match merged {
                None => out.class("rejected-as-a-whole"),
                Some(_) => out.fail("loaded-despite-bad-file", format!("fault kind {} but a configuration was returned", c.fault)),
            };
        }
        let Some(merged) = merged else {
            return out.fail("valid-configuration-rejected", "load_zone_configuration returned None for valid files");
        };

        for (apex, want) in &expected {
            let Some(got) = merged.get(&apex.dom()).filter(|z| N::from_domain(z.get_apex()) == *apex) else {
                return out.fail("zone-missing", format!("no zone with apex {apex}"));
            };
            if let Err((s, d)) = compare_union(want, got) {
                return out.fail(s, d);
            }
            // every question: merged zone == R-ZONE over the union (inside scope D1)
            let mut scoped = want.clone();
            let before = scoped.recs.len();
            enforce_d1(&mut scoped);
            if scoped.recs.len() == before {
                // TTLs in `want` are final: look up without clamping again
                let mut unclamped = want.clone();
                if let Some(s) = &mut unclamped.soa {
                    // effective() would clamp to the last SOA's minimum; the
                    // union keeps each file's TTLs, so compare lookups on a
                    // model whose TTLs are already >= nothing: emulate by a
                    // zero minimum for clamping purposes only
                    let real_min = s.minimum;
                    s.minimum = 0;
                    let r = lookups_agree(&unclamped, real_min, got, &mut out);
                    if let Err((sg, d)) = r {
                        return out.fail(sg, d);
                    }
                } else if let Err((sg, d)) = lookups_agree(&unclamped, 0, got, &mut out) {
                    return out.fail(sg, d);
                }
            } else {
                out.classes.push("union-outside-D1".into());
            }
        }
        // hosts entries resolve from the root zone
        for (n, a) in &hv4 {
            let want_rr = (n.clone(), T_A, WData::A(a.octets()), 5u32);
            match merged.resolve(&n.dom(), QueryType::Record(RecordType::A)) {
                // a more specific zone may own the name: then the root zone is not asked
                Some((z, _)) if !z.get_apex().is_root() => {}
                Some((_, ZoneResult::Answer { rrs })) if rrs.iter().any(|r| row_of(r) == want_rr) => {}
                // a zone file may alias or delegate the name (not the hosts file's business)
                Some((_, ZoneResult::CNAME { .. } | ZoneResult::Delegation { .. })) => {}
                other => return out.fail("hosts-entry-not-served", format!("{n} A: {:?}", other.map(|x| x.1))),
            }
        }
        out
    }
}

/// Lookups on the merged zone agree with R-ZONE over the union.  `soa_min`
/// is the TTL the SOA record itself carries.
fn lookups_agree(want: &ZoneModel, soa_min: u32, got: &Zone, out: &mut Outcome) -> Result<(), (String, String)> {
    // effective(): SOA record at apex with ttl = minimum; we zeroed the
    // minimum to avoid re-clamping, so patch the SOA row's ttl and data back
    let mut eff = want.effective();
    for r in &mut eff {
        if r.rtype == T_SOA && !r.wild && r.owner == want.apex.lower() {
            r.ttl = soa_min;
            if let WData::Soa { minimum, .. } = &mut r.data {
                *minimum = soa_min;
            }
        }
    }
    let names = interesting_names(want);
    let mut n = 0u64;
    for qn in &names {
        let Some(qd) = qn.to_domain() else { continue };
        for qt in ALL_QTYPES {
            n += 1;
            let w = want.lookup_in(&eff, qn, qt).normalised();
            let g = got.resolve(&qd, QueryType::from(qt)).map(|r| zr_from_impl(&r).normalised());
            if g.as_ref() != Some(&w) {
                let sig = match (&g, &w) {
                    (Some(ZR::NameError), ZR::Answer(_) | ZR::Alias(_)) | (Some(ZR::Answer(_)), ZR::Answer(_)) => "merged-lookup-differs",
                    _ => "merged-lookup-differs",
                };
                return Err((sig.into(), format!("zone {}: resolve({qn}, {qt}) = {g:?}, union says {w:?}", want.apex)));
            }
        }
    }
    out.counts.push(("queries", n));
    Ok(())
}

fn build_on_disk(c: &Case, dir: &PathBuf) -> Result<Option<Zones>, String> {
    let io = |e: std::io::Error| e.to_string();
    let zdirs = [dir.join("zones0"), dir.join("zones1")];
    let hdirs = [dir.join("hosts0"), dir.join("hosts1")];
    for d in zdirs.iter().chain(hdirs.iter()) {
        std::fs::create_dir_all(d).map_err(io)?;
    }
    let store = dir.join("store");
    std::fs::create_dir_all(&store).map_err(io)?;
    // a sub-directory inside a -Z directory is skipped by the loader
    std::fs::create_dir_all(zdirs[0].join("subdir")).map_err(io)?;
    let mut zone_files = Vec::new();
    // create in reverse so that creation order differs from sorted order
    for (i, (spec, z)) in c.zones.iter().enumerate().rev() {
        let path = match spec.dir {
            None => dir.join(format!("z-{}-{}", i, spec.file_name)),
            Some(d) => zdirs[d as usize % 2].join(&spec.file_name),
        };
        let mut text = render_plain(z).into_bytes();
        if c.fault == 1 && i == 0 {
            text.extend_from_slice(b"this is ( not a zone file\n) )\n");
        }
        if c.fault == 2 && i == 0 {
            text.extend_from_slice(&[0xff, 0xfe, b'\n']);
        }
        // every other file of a directory is a symbolic link to a file kept elsewhere
        if spec.dir.is_some() && i % 2 == 1 {
            let real = store.join(format!("zone-{i}"));
            std::fs::write(&real, text).map_err(io)?;
            let _ = std::fs::remove_file(&path);
            std::os::unix::fs::symlink(&real, &path).map_err(io)?;
        } else {
            std::fs::write(&path, text).map_err(io)?;
        }
        if spec.dir.is_none() {
            zone_files.push((i, path));
        }
    }
    zone_files.sort();
    let mut zone_files: Vec<PathBuf> = zone_files.into_iter().map(|x| x.1).collect();
    let mut host_files = Vec::new();
    for (i, (spec, entries)) in c.hosts.iter().enumerate().rev() {
        let path = match spec.dir {
            None => dir.join(format!("h-{}-{}", i, spec.file_name)),
            Some(d) => hdirs[d as usize % 2].join(&spec.file_name),
        };
        if spec.dir.is_some() && i % 2 == 1 {
            let real = store.join(format!("hosts-{i}"));
            std::fs::write(&real, hosts_of(entries)).map_err(io)?;
            let _ = std::fs::remove_file(&path);
            std::os::unix::fs::symlink(&real, &path).map_err(io)?;
        } else {
            std::fs::write(&path, hosts_of(entries)).map_err(io)?;
        }
        if spec.dir.is_none() {
            host_files.push((i, path));
        }
    }
    host_files.sort();
    let mut host_files: Vec<PathBuf> = host_files.into_iter().map(|x| x.1).collect();
    let mut zone_dirs: Vec<PathBuf> = zdirs.to_vec();
    if c.fault == 3 {
        zone_files.push(dir.join("does-not-exist.zone"));
    }
    if c.fault == 4 {
        zone_dirs.push(dir.join("no-such-dir"));
    }
    if c.fault == 5 {
        let p = dir.join("bad.hosts");
        std::fs::write(&p, "1.2.3.4.5 broken\n").map_err(io)?;
        host_files.push(p);
    }
    let rt = tokio::runtime::Builder::new_current_thread().enable_all().build().map_err(|e| e.to_string())?;
    Ok(rt.block_on(resolved::fs::load_zone_configuration(&host_files, &hdirs.to_vec(), &zone_files, &zone_dirs)))
}

pub fn def() -> PropertyDef {
    PropertyDef {
        id: "C12",
        level: "exploration",
        rule: "1..5 zone files (authoritative for example.com., a.example.com. or the root, or non-authoritative; 0..6 records each incl. wildcards at nodes the other files have and have not, identical and overlapping records, different SOAs) and 0..3 hosts files with conflicting entries, composed (5/6) in memory through Zone::deserialise + Zones::insert_merge + Hosts::merge or (1/6) as files and directories on disk through resolved::fs::load_zone_configuration (explicit files first, then each directory sorted; file names chosen so that sorted order differs from creation order; every other directory entry is a symbolic link to a file kept elsewhere; 1/4 of the on-disk cases carry a bad file: syntax error, non-UTF-8, missing file, missing directory, bad hosts file). Oracle: per apex the flat content equals the set union of the files' records with the last SOA; exactly one SOA; every interesting name x 23 query types resolves as R-ZONE over the union (when the union is inside scope D1); hosts entries per (name, family) are the last file's, served from the root zone with TTL 5; any bad file => no configuration. Non-trivial = two inputs share an apex and differ in wildcard records or SOA. Distinct by hash of the case.",
        assumptions: vec!["zone files are rendered in the plain form (C11 covers syntax variants)", "lookups are compared only when the union holds nothing below a delegation point (D1)"],
        parts: vec![Box::new(Compose)],
        budget_s: |t| t.pick(900, 10_800),
        needs_repo_bins: false,
    }
}

//! C11 — a zone file means what RFC 1035 section 5 says it means.

use dns_types::zones::types::Zone;
use serde::{Deserialize, Serialize};

use crate::engine::{Outcome, Prop, PropertyDef, Tier};
use crate::gen::Gen;
use crate::rzone::*;
use crate::util::N;
use crate::ztext::*;

#[derive(Debug, Clone, PartialEq, Eq, Hash, Serialize, Deserialize)]
pub enum Corruption {
    Include,
    ForeignClass,
    SecondSoa,
    WildcardSoa,
    OutsideApex,
    RelativeWithoutOrigin,
    FirstRecordWithoutTtl,
    UnbalancedClose,
    NestedOpen,
    BadEscape,
    NonAscii,
}

#[derive(Debug, Clone, PartialEq, Eq, Hash, Serialize, Deserialize)]
pub struct Case {
    /// What the text denotes (before any corruption).
    pub zone: ZoneModel,
    pub text: String,
    pub corruption: Option<Corruption>,
    pub inherited_fields: u32,
    pub origin_changes: u32,
    pub multiline_groups: u32,
}

pub struct Denotation;

pub fn gen_denotation(g: &mut Gen, rich_octets: bool) -> ZoneModel {
    let authoritative = g.chance(2, 3);
    let apex = if authoritative { super::c02::gen_apex(g) } else { N::root() };
    let soa = if authoritative { Some(gen_soa(g, &apex)) } else { None };
    let mut z = gen_zone(
        g,
        apex,
        soa,
        &ZoneGenOpts {
            max_recs: 10,
            allow_wild: true,
            enforce_scope: false,
        },
    );
    if rich_octets {
        enrich(g, &mut z);
    }
    z
}

/// Replace some labels and RDATA by octets that need escaping.
pub fn enrich(g: &mut Gen, z: &mut ZoneModel) {
    const SPECIAL: &[u8] = b"\"\\;() @*#$\t\x00\x7f\x01!/:<=>?[]^`{|}~'&%+,";
    let mut rich_label = |g: &mut Gen| -> Vec<u8> {
        let n = g.range(1, 4);
        (0..n)
            .map(|_| match g.weighted(&[3, 2, 1]) {
                0 => g.pick(SPECIAL),
                1 => g.pick(b"ab0-_"),
                _ => g.below(128) as u8,
            })
            .map(|b| if b == b'.' { b'x' } else { b.to_ascii_lowercase() })
            .collect()
    };
    let apex_depth = z.apex.depth();
    // names that echo the apex: a label equal to the apex's first label, a
    // label ending in its text ("wlan" in "lan."), the apex repeated below
    // itself ("printer.lan.lan.") - what string-based relativisation gets wrong
    let apex = z.apex.clone();
    let echo = |g: &mut Gen, n: &mut N| {
        if apex.0.is_empty() || !n.is_at_or_below(&apex) {
            return;
        }
        let first = apex.0[0].clone();
        let cand = match g.below(3) {
            0 => apex.child(&first),
            1 => {
                let mut l = vec![g.pick(b"wx0")];
                l.extend_from_slice(&first);
                l.truncate(63);
                apex.child(&l)
            }
            _ => {
                let mut m = N(apex.0.clone());
                m.0.extend(apex.0.iter().cloned());
                m.child(g.pick(&["printer", "a"]).as_bytes())
            }
        };
        if cand.wire_len() <= 255 {
            *n = cand;
        }
    };
    for r in &mut z.recs {
        if g.chance(1, 8) && r.owner.depth() > apex_depth {
            echo(g, &mut r.owner);
        } else if g.chance(1, 3) && r.owner.depth() > apex_depth {
            let mut l = rich_label(g);
            // an owner whose first label is exactly "*" is a wildcard by syntax
            if l == b"*" {
                l = b"*x".to_vec();
            }
            r.owner.0[0] = l;
        }
        let mut fix = |g: &mut Gen, n: &mut N| {
            if g.chance(1, 8) {
                echo(g, n);
            } else if g.chance(1, 4) && !n.0.is_empty() {
                n.0[0] = rich_label(g);
            }
        };
        match &mut r.data {
            crate::rwire::WData::Name(n) => fix(g, n),
            crate::rwire::WData::Mx(_, n) | crate::rwire::WData::Srv(_, _, _, n) => fix(g, n),
            crate::rwire::WData::Minfo(a, b) => {
                fix(g, a);
                fix(g, b);
            }
            crate::rwire::WData::Opaque(o) => {
                if g.chance(1, 2) {
                    let n = g.range(0, 12);
                    *o = (0..n)
                        .map(|_| match g.weighted(&[2, 2, 1]) {
                            0 => g.pick(SPECIAL),
                            1 => g.u8(),
                            _ => b'\n',
                        })
                        .collect();
                }
            }
            _ => {}
        }
    }
}

fn corrupt(g: &mut Gen, z: &ZoneModel, text: &str, c: &Corruption) -> Option<String> {
    let apex = esc_name(&z.apex);
    let below = |l: &str| if z.apex.0.is_empty() { format!("{l}.") } else { format!("{l}.{apex}") };
    Some(match c {
        Corruption::Include => {
            let line = if g.bool() { "$INCLUDE other.zone\n".to_string() } else { format!("$INCLUDE other.zone {apex}\n") };
            if g.bool() { format!("{line}{text}") } else { format!("{text}{line}") }
        }
        Corruption::ForeignClass => {
            let class = g.pick(&["CH", "HS", "CS"]);
            let line = if g.bool() { format!("{} 300 {class} A 1.2.3.4\n", below("x")) } else { format!("{} {class} 300 A 1.2.3.4\n", below("x")) };
            format!("{text}{line}")
        }
        Corruption::SecondSoa => {
            z.soa.as_ref()?;
            format!("{text}{apex} 5 IN SOA m. r. 1 2 3 4 5\n")
        }
        Corruption::WildcardSoa => format!("{text}*.{} 5 IN SOA m. r. 1 2 3 4 5\n", if z.apex.0.is_empty() { String::new() } else { apex.clone() }),
        Corruption::OutsideApex => {
            if z.soa.is_none() || z.apex.0.is_empty() {
                return None;
            }
            let rec = if g.bool() { "outside.invalid. 300 IN A 1.2.3.4\n" } else { "*.outside.invalid. 300 IN A 1.2.3.4\n" };
            // after everything else, or before it (that is, before the SOA)
            if g.bool() {
                format!("{text}{rec}")
            } else {
                format!("{rec}{text}")
            }
        }
        Corruption::RelativeWithoutOrigin => {
            let rec = g.pick(&["rel 300 IN A 1.2.3.4\n", "@ 300 IN A 1.2.3.4\n", "* 300 IN A 1.2.3.4\n", "a. 300 IN NS rel\n", "$ORIGIN rel\n"]);
            format!("{rec}{text}")
        }
        Corruption::FirstRecordWithoutTtl => {
            let rec = g.pick(&["IN A 1.2.3.4\n", "A 1.2.3.4\n", "IN NS ns.\n"]);
            format!("{} {rec}{text}", below("nottl"))
        }
        Corruption::UnbalancedClose => {
            let rec = g.pick(&[" )\n", "a. 300 IN A 1.2.3.4 )\n", ") a. 300 IN A 1.2.3.4\n"]);
            format!("{text}{rec}")
        }
        Corruption::NestedOpen => format!("{text}a. 300 IN A ( ( 1.2.3.4 ) )\n"),
        Corruption::BadEscape => {
            let rec = g.pick(&["a. 300 IN TXT \\", "a. 300 IN TXT \\2", "a. 300 IN TXT \\25", "a. 300 IN TXT \\256\n", "a. 300 IN TXT \\2x5\n", "a\\999. 300 IN A 1.2.3.4\n", "a. 300 IN TXT \"x\\"]);
            format!("{text}{rec}")
        }
        Corruption::NonAscii => {
            let rec = g.pick(&["\u{e9}. 300 IN A 1.2.3.4\n", "a. 300 IN TXT \"\u{e9}\"\n", "a. 300 IN TXT caf\u{e9}\n", "a. 300 IN TXT \\\u{e9}\n"]);
            format!("{text}{rec}")
        }
    })
}

pub fn gen_case(g: &mut Gen, rich: bool) -> Case {
    let zone = gen_denotation(g, rich);
    let (text, st) = render(
        g,
        &zone,
        &RenderOpts {
            layout_noise: true,
            inheritance: true,
            origin_changes: true,
        },
    );
    let mut case = Case {
        zone,
        text,
        corruption: None,
        inherited_fields: st.inherited_fields,
        origin_changes: st.origin_changes,
        multiline_groups: st.multiline_groups,
    };
    if g.chance(1, 5) {
        let c = g.pick(&[
            Corruption::Include,
            Corruption::ForeignClass,
            Corruption::SecondSoa,
            Corruption::WildcardSoa,
            Corruption::OutsideApex,
            Corruption::RelativeWithoutOrigin,
            Corruption::FirstRecordWithoutTtl,
            Corruption::UnbalancedClose,
            Corruption::NestedOpen,
            Corruption::BadEscape,
            Corruption::NonAscii,
        ]);
        if let Some(t) = corrupt(g, &case.zone, &case.text, &c) {
            case.text = t;
            case.corruption = Some(c);
        }
    }
    case
}

pub fn compare_with_denotation(z: &ZoneModel, parsed: &Zone) -> Result<(), (String, String)> {
    // what the implementation stores, as stored (no clamping on our side: the
    // raise to the SOA minimum is the implementation's job) ...
    let g = ZoneModel::from_impl(parsed);
    let mut stored = g.recs.clone();
    for r in &mut stored {
        r.owner = r.owner.lower();
    }
    stored.sort();
    let got = (g.apex.lower(), g.soa.clone(), stored);
    // ... against what the text denotes (TTLs raised by the model)
    let want = z.canonical();
    if got.0 != want.0 {
        return Err(("wrong-apex".into(), format!("apex {} instead of {}", got.0, want.0)));
    }
    if got.1 != want.1 {
        return Err(("wrong-soa".into(), format!("SOA {:?} instead of {:?}", got.1, want.1)));
    }
    if got.2 != want.2 {
        let missing: Vec<_> = want.2.iter().filter(|r| !got.2.contains(r)).take(3).collect();
        let extra: Vec<_> = got.2.iter().filter(|r| !want.2.contains(r)).take(3).collect();
        return Err((
            "wrong-records".into(),
            format!("records differ: missing {missing:?}, unexpected {extra:?}"),
        ));
    }
    Ok(())
}

impl Prop for Denotation {
    type Case = Case;
    fn name(&self) -> &'static str {
        "denotation"
    }
    fn tape_len(&self) -> usize {
        700
    }
    fn cases(&self, tier: Tier) -> u64 {
        tier.pick(300_000, 30_000_000)
    }
    fn generate(&self, g: &mut Gen) -> Case {
        gen_case(g, false)
    }
    fn check(&self, c: &Case) -> Outcome {
        let nt = c.inherited_fields >= 2 || c.origin_changes > 0 || c.multiline_groups > 0;
        let mut out = Outcome::pass(nt)
            .count("inherited-fields", u64::from(c.inherited_fields))
            .count("origin-changes", u64::from(c.origin_changes))
            .count("multiline-groups", u64::from(c.multiline_groups))
            .count("records", c.zone.recs.len() as u64);
        if c.zone.soa.is_some() {
            out.classes.push("authoritative".into());
        }
        if c.zone.recs.iter().any(|r| r.wild) {
            out.classes.push("has-wildcard".into());
        }
        let parsed = Zone::deserialise(&c.text);
        match (&c.corruption, parsed) {
            (Some(k), Ok(_)) => {
                out.classes.push(format!("corruption:{k:?}"));
                out.fail(format!("accepted-corrupt:{k:?}"), format!("corrupted text was loaded:\n{}", c.text))
            }
            (Some(k), Err(_)) => out.class(format!("corruption:{k:?}")).class("rejected"),
            (None, Err(e)) => out.fail("valid-text-rejected", format!("{e:?} for\n{}", c.text)),
            (None, Ok(z)) => match compare_with_denotation(&c.zone, &z) {
                Ok(()) => out.class("parsed"),
                Err((s, d)) => out.fail(s, format!("{d}\n--- text ---\n{}", c.text)),
            },
        }
    }
}

pub fn def() -> PropertyDef {
    PropertyDef {
        id: "C11",
        level: "exploration",
        rule: "A denotation (apex, optional SOA, 0..10 records over all 18 supported types incl. wildcard owners) is rendered to master-file text by a grammar with independent choices per entry: owner explicit absolute / relative / @ / omitted; TTL and class present or absent, in either order; $ORIGIN changes (absolute and relative); spaces, tabs, CRLF, blank and comment lines, trailing comments, parenthesised multi-line groups; quoted and unquoted RDATA strings, \\X and \\DDD escapes, mixed case; 1 case in 5 additionally carries one of 11 single-fault corruptions ($INCLUDE, class CH/HS/CS, second SOA, wildcard SOA, owner outside the apex, relative name without origin, first record without TTL, unbalanced ), nested (, broken escape, non-ASCII). Oracle: valid text parses and (apex, SOA, records, wildcard records, TTLs raised to the SOA minimum) equal the denotation as sorted multisets; corrupted text is rejected. Non-trivial = at least two inherited fields, an $ORIGIN change or a multi-line group. Distinct by hash of (denotation, text).",
        assumptions: vec![
            "tokens the grammar itself makes ambiguous are not generated (deviation D6); parentheses are whitespace-delimited (D5)",
            "TXT/HINFO/NULL/WKS RDATA is a single character string (what this parser supports)",
        ],
        parts: vec![Box::new(Denotation)],
        budget_s: |t| t.pick(600, 7200),
        needs_repo_bins: false,
    }
}

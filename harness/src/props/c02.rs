//! C02 — zone lookup follows the standard authoritative-server algorithm.

use dns_types::protocol::types::QueryType;
use dns_types::zones::types::Zone;
use serde::{Deserialize, Serialize};

use crate::engine::{Outcome, Prop, PropertyDef, Tier};
use crate::gen::Gen;
use crate::rzone::*;
use crate::util::N;

#[derive(Debug, Clone, PartialEq, Eq, Hash, Serialize, Deserialize)]
pub struct Case {
    pub zone: ZoneModel,
    /// Build the implementation's zone by parsing text instead of the API.
    pub via_text: bool,
}

pub struct Lookup;

pub fn gen_apex(g: &mut Gen) -> N {
    match g.weighted(&[2, 3, 3, 1]) {
        0 => N::root(),
        1 => N::parse("example."),
        2 => N::parse("example.com."),
        _ => N::parse("a.example.com."),
    }
}

/// Signature of a disagreement (root-cause predicates, DESIGN Appendix D).
pub fn classify_mismatch(z: &ZoneModel, got: &ZR, want: &ZR) -> String {
    if let ZR::Referral(rows) = got {
        if rows.iter().all(|r| r.0 == z.apex.lower()) && !matches!(want, ZR::Referral(_)) {
            return "apex-ns-referral".to_string();
        }
    }
    format!("lookup-differs:{}-for-{}", got.kind(), want.kind())
}

pub fn check_zone_against_model(z: &ZoneModel, iz: &Zone, out: &mut Outcome) -> Result<(), (String, String)> {
    let eff = z.effective();
    let names = interesting_names(z);
    let mut queries = 0u64;
    let mut kinds = std::collections::BTreeSet::new();
    let mut first_err = None;
    for qn in &names {
        let Some(qd) = qn.to_domain() else { continue };
        for qt in ALL_QTYPES {
            queries += 1;
            let want = z.lookup_in(&eff, qn, qt).normalised();
            kinds.insert(want.kind());
            let got = match iz.resolve(&qd, QueryType::from(qt)) {
                Some(r) => zr_from_impl(&r).normalised(),
                None => {
                    first_err.get_or_insert((
                        "resolve-none".to_string(),
                        format!("resolve({qn}, {qt}) returned None inside the zone"),
                    ));
                    continue;
                }
            };
            if got != want {
                let sig = classify_mismatch(z, &got, &want);
                // keep looking: prefer reporting a mismatch that is not the
                // apex-NS one, so that it cannot mask others
                let e = (sig.clone(), format!("resolve({qn}, type {qt}): got {got:?}, reference says {want:?}"));
                match &first_err {
                    None => first_err = Some(e),
                    Some((s, _)) if s == "apex-ns-referral" && sig != "apex-ns-referral" => first_err = Some(e),
                    _ => {}
                }
            }
        }
    }
    out.counts.push(("queries", queries));
    for k in kinds {
        out.classes.push(format!("result:{k}"));
    }
    match first_err {
        None => Ok(()),
        Some(e) => Err(e),
    }
}

impl Prop for Lookup {
    type Case = Case;
    fn name(&self) -> &'static str {
        "lookup"
    }
    fn tape_len(&self) -> usize {
        192
    }
    fn cases(&self, tier: Tier) -> u64 {
        tier.pick(6_000, 400_000)
    }
    fn generate(&self, g: &mut Gen) -> Case {
        let apex = gen_apex(g);
        let soa = if g.chance(2, 3) { Some(gen_soa(g, &apex)) } else { None };
        let zone = gen_zone(
            g,
            apex,
            soa,
            &ZoneGenOpts {
                max_recs: 12,
                allow_wild: true,
                enforce_scope: true,
            },
        );
        // text can only express non-authoritative zones at the root apex
        let via_text = g.chance(1, 3) && (zone.soa.is_some() || zone.apex.0.is_empty());
        Case { zone, via_text }
    }

    fn enumerate(&self, tier: Tier, emit: &mut dyn FnMut(Case)) {
        // exhaustive small scope: every zone with <= 2 (quick) / 3 (thorough)
        // records drawn from a pool over a 2-label alphabet and 4 types
        let apex = N::parse("z.");
        let owners = [
            apex.clone(),
            apex.child(b"a"),
            apex.child(b"b"),
            apex.child(b"a").child(b"a"),
            apex.child(b"a").child(b"b"),
        ];
        let mut pool: Vec<ZRec> = Vec::new();
        for o in &owners {
            for wild in [false, true] {
                for (rtype, data) in [
                    (T_A, crate::rwire::WData::A([10, 0, 0, 1])),
                    (T_NS, crate::rwire::WData::Name(N::parse("ns.other."))),
                    (T_CNAME, crate::rwire::WData::Name(N::parse("b.z."))),
                    (T_TXT, crate::rwire::WData::Opaque(b"t".to_vec())),
                ] {
                    if wild && rtype == T_NS {
                        continue; // D2
                    }
                    pool.push(ZRec {
                        owner: o.clone(),
                        wild,
                        rtype,
                        data,
                        ttl: 60,
                    });
                }
            }
        }
        let max = if tier == Tier::Thorough { 3 } else { 2 };
        let n = pool.len();
        let mut emit_set = |idx: &[usize]| {
            for soa in [false, true] {
                let mut z = ZoneModel {
                    apex: apex.clone(),
                    soa: if soa {
                        Some(SoaM {
                            mname: N::parse("m."),
                            rname: N::parse("r."),
                            serial: 1,
                            refresh: 1,
                            retry: 1,
                            expire: 1,
                            minimum: 30,
                        })
                    } else {
                        None
                    },
                    recs: idx.iter().map(|i| pool[*i].clone()).collect(),
                };
                let before = z.recs.len();
                enforce_d1(&mut z);
                if z.recs.len() != before {
                    continue; // outside the claim (D1)
                }
                emit(Case { zone: z, via_text: false });
            }
        };
        emit_set(&[]);
        for a in 0..n {
            emit_set(&[a]);
            if max >= 2 {
                for b in a + 1..n {
                    emit_set(&[a, b]);
                    if max >= 3 {
                        for c in b + 1..n {
                            emit_set(&[a, b, c]);
                        }
                    }
                }
            }
        }
    }
    fn exhaustive(&self, _tier: Tier) -> bool {
        true
    }

    fn check(&self, c: &Case) -> Outcome {
        let feats = zone_features(&c.zone);
        let mut out = Outcome::pass(feats.iter().filter(|f| **f != "soa").count() >= 2);
        for f in &feats {
            out.classes.push(format!("zone:{f}"));
        }
        out.classes.push(if c.via_text { "built:text".into() } else { "built:api".into() });
        let iz = if c.via_text {
            let text = render_plain(&c.zone);
            match Zone::deserialise(&text) {
                Ok(z) => z,
                Err(e) => {
                    return out.fail("text-rejected", format!("{e:?} for\n{text}"));
                }
            }
        } else {
            c.zone.to_impl()
        };
        match check_zone_against_model(&c.zone, &iz, &mut out) {
            Ok(()) => out,
            Err((sig, detail)) => out.fail(sig, detail),
        }
    }
}

pub fn def() -> PropertyDef {
    PropertyDef {
        id: "C02",
        level: "exploration",
        rule: "Zones (apex root..3 labels, SOA or none, 0..12 records over all supported types, wildcards, CNAMEs, cuts, apex NS, empty non-terminals) generated from a choice tape and built through the insertion API or by parsing rendered text; each zone is asked every name in its closure (owners, ancestors, their children over the label alphabet plus fresh labels, two levels deep) x 23 query types (18 supported, one unknown, AXFR, MAILB, MAILA, ANY) and every result is compared with R-ZONE (kind, owners, record multiset incl. TTL after SOA-minimum clamp). Plus the exhaustive set of all zones with <=2 (quick) / <=3 (thorough) records from a pool of 35 records over 5 owners x 4 types x {plain,wildcard}. A case is one zone; non-trivial = the zone has at least two of {wildcard, CNAME, cut, apex NS, empty non-terminal}; distinct by hash of the zone.",
        assumptions: vec![
            "zones holding records beneath a non-apex delegation point are not generated (deviation D1)",
            "wildcard NS records and query names containing a literal * label are not generated (D2)",
            "at most one CNAME per node",
        ],
        parts: vec![Box::new(Lookup)],
        budget_s: |t| t.pick(600, 7200),
        needs_repo_bins: false,
    }
}

//! C19 — reload swaps the whole configuration or none of it.

use std::path::{Path, PathBuf};
use std::sync::atomic::{AtomicBool, Ordering};
use std::sync::{Arc, Mutex};
use std::time::{Duration, Instant};

use serde::{Deserialize, Serialize};

use crate::engine::{Outcome, Prop, PropertyDef, Tier};
use crate::gen::Gen;
use crate::rwire::{self, WData, WMsg, WQ};
use crate::rzone::*;
use crate::server::*;
use crate::util::N;

#[derive(Debug, Clone, Copy, PartialEq, Eq, Hash, Serialize, Deserialize)]
pub enum Fault {
    /// syntax error in the explicit zone file / in a directory zone file
    ZoneSyntax(bool),
    /// a zone file that is not UTF-8
    NotUtf8,
    /// the explicit zone file is replaced by a directory
    FileIsDirectory,
    /// the explicit zone file is removed
    FileMissing,
    /// malformed address in the hosts file
    BadHosts,
    /// a second SOA in the explicit zone file
    TwoSoa,
    /// a symbolic link to nowhere in the zone directory / in the hosts directory
    DanglingLink(bool),
    /// the zone and the hosts directory are renamed away
    DirsGone,
}

#[derive(Debug, Clone, PartialEq, Eq, Hash, Serialize, Deserialize)]
pub struct Step {
    /// which of the three optional zone files exist in the -Z directory
    pub extras: [bool; 3],
    /// whether the optional hosts file exists in the -A directory
    pub hosts_extra: bool,
    pub fault: Option<Fault>,
    /// padding records in the directory zone (more = slower load)
    pub pad: u16,
    /// a hosts "file" in the -A directory that is a FIFO without a writer:
    /// the load blocks until the harness feeds it, and probes sent meanwhile
    /// must be answered from the old configuration
    #[serde(default)]
    pub slow: bool,
    /// (slow-upstream histories) a question about a non-local name is put
    /// just before the signal, so that the reload coincides with a resolution
    /// that is waiting for its forwarder
    #[serde(default)]
    pub inflight: bool,
}

#[derive(Debug, Clone, PartialEq, Eq, Hash, Serialize, Deserialize)]
pub struct History {
    pub steps: Vec<Step>,
    /// the server is configured with directories only (-Z, -A): what would be
    /// the explicit zone and hosts files live in those directories
    #[serde(default)]
    pub dirs_only: bool,
    /// the server runs in forwarding mode towards a forwarder that never
    /// answers (a bound socket nobody reads): questions about names that are
    /// not local stay in flight for seconds
    #[serde(default)]
    pub slow_upstream: bool,
    /// the server runs in forwarding mode towards a forwarder that answers
    /// every question at once with an empty NOERROR reply; before each reload
    /// the hosts names are asked with QTYPE ANY and RD set, so that local and
    /// upstream data are merged into one answer (nothing local may reach the
    /// cache that way: the cache survives the reload)
    #[serde(default)]
    pub answering_upstream: bool,
}

struct Layout {
    dir: PathBuf,
    zfile: PathBuf,
    zdir: PathBuf,
    hfile: PathBuf,
    hdir: PathBuf,
}

fn soa(zone: &str, ver: usize) -> String {
    format!("$ORIGIN {zone}\n@ IN SOA ns.{zone} admin.{zone} {ver} 3600 600 86400 0\n")
}

/// Write the complete configuration of version `ver`.
fn write_config(l: &Layout, ver: usize, s: &Step) -> std::io::Result<()> {
    // undo whatever a previous fault left behind
    for d in [&l.zdir, &l.hdir] {
        let gone = PathBuf::from(format!("{}.gone", d.display()));
        if gone.exists() {
            std::fs::remove_dir_all(&gone)?;
        }
        std::fs::create_dir_all(d)?;
    }
    if l.zfile.is_dir() {
        std::fs::remove_dir_all(&l.zfile)?;
    }
    let mut z1 = soa("v.test.", ver);
    z1.push_str(&format!("m1 300 IN TXT \"v{ver}\"\nm2 300 IN TXT \"v{ver}\"\nmulti 300 IN A 10.{ver}.0.1\nmulti 300 IN A 10.{ver}.0.2\nmulti 300 IN A 10.{ver}.0.3\nalias {} IN CNAME target.w.test.\n", 1000 + ver));
    match s.fault {
        Some(Fault::ZoneSyntax(true)) => z1.push_str("broken ( 300 IN A not-an-address\n"),
        Some(Fault::TwoSoa) => z1.push_str(&format!("@ IN SOA ns.v.test. admin.v.test. {} 1 1 1 0\n", ver + 100)),
        _ => {}
    }
    match s.fault {
        Some(Fault::FileIsDirectory) => {
            let _ = std::fs::remove_file(&l.zfile);
            std::fs::create_dir_all(&l.zfile)?;
        }
        Some(Fault::FileMissing) => {
            let _ = std::fs::remove_file(&l.zfile);
        }
        _ => std::fs::write(&l.zfile, z1)?,
    }
    // directory zone w.test. (sorted first among the directory files) with padding
    let mut w = soa("w.test.", ver);
    w.push_str(&format!("target 300 IN TXT \"v{ver}\"\n"));
    for i in 0..s.pad {
        w.push_str(&format!("pad{i} 300 IN TXT \"v{ver} {}\"\n", "x".repeat(40)));
    }
    if s.fault == Some(Fault::ZoneSyntax(false)) {
        w.push_str("oops 300 IN\n");
    }
    std::fs::write(l.zdir.join("10-w.zone"), w)?;
    for k in 0..3 {
        let p = l.zdir.join(format!("20-extra{k}.zone"));
        if s.extras[k] {
            let mut e = soa(&format!("x{k}.test."), ver);
            e.push_str(&format!("extra 300 IN TXT \"v{ver}\"\n"));
            std::fs::write(p, e)?;
        } else {
            let _ = std::fs::remove_file(p);
        }
    }
    for (dir, name, on) in [(&l.zdir, "98-dangling.zone", s.fault == Some(Fault::DanglingLink(true))), (&l.hdir, "98-dangling.hosts", s.fault == Some(Fault::DanglingLink(false)))] {
        let p = dir.join(name);
        let _ = std::fs::remove_file(&p);
        if on {
            std::os::unix::fs::symlink(l.dir.join("no-such-file"), &p)?;
        }
    }
    let bad = l.zdir.join("99-binary.zone");
    if s.fault == Some(Fault::NotUtf8) {
        std::fs::write(bad, [0xffu8, 0xfe, 0xfd, b'\n'])?;
    } else {
        let _ = std::fs::remove_file(bad);
    }
    let mut h = format!("10.0.{ver}.1 host.lan\n10.0.{ver}.2 second.lan # version {ver}\n");
    if s.fault == Some(Fault::BadHosts) {
        h.push_str("300.1.2.3 broken.lan\n");
    }
    std::fs::write(&l.hfile, h)?;
    let he = l.hdir.join("more.hosts");
    if s.hosts_extra {
        std::fs::write(he, format!("10.1.{ver}.1 more.lan\n"))?;
    } else {
        let _ = std::fs::remove_file(he);
    }
    if s.fault == Some(Fault::DirsGone) {
        for d in [&l.zdir, &l.hdir] {
            std::fs::rename(d, PathBuf::from(format!("{}.gone", d.display())))?;
        }
    }
    Ok(())
}

fn query(name: &str, qtype: u16, id: u16) -> Vec<u8> {
    rwire::encode_plain(&WMsg {
        id, qr: false, opcode: 0, aa: false, tc: false, rd: false, ra: false, rcode: 0,
        questions: vec![WQ { name: N::parse(name), qtype, qclass: 1 }],
        answers: vec![], authority: vec![], additional: vec![],
    })
}

/// Version markers found in a reply.
fn markers(m: &WMsg) -> Vec<usize> {
    let mut v = Vec::new();
    for rr in m.answers.iter() {
        match &rr.data {
            WData::A(a) if a[0] == 10 && a[2] == 0 => v.push(a[1] as usize), // multi: 10.<ver>.0.x
            WData::A(a) if a[0] == 10 && a[1] <= 1 => v.push(a[2] as usize), // hosts: 10.0.<ver>.x / 10.1.<ver>.x
            WData::Opaque(o) => {
                let s = String::from_utf8_lossy(o);
                if let Some(rest) = s.strip_prefix('v') {
                    let digits: String = rest.chars().take_while(|c| c.is_ascii_digit()).collect();
                    if let Ok(n) = digits.parse() {
                        v.push(n);
                    }
                }
            }
            WData::Name(_) if rr.rtype == T_CNAME && rr.ttl >= 1000 => v.push((rr.ttl - 1000) as usize),
            _ => {}
        }
    }
    v
}

const PROBES: [(&str, u16); 6] = [
    ("multi.v.test.", T_A),
    ("m1.v.test.", T_TXT),
    ("alias.v.test.", T_TXT),
    ("host.lan.", T_A),
    ("target.w.test.", T_TXT),
    ("m2.v.test.", Q_ANY),
];

fn count_done(log: &str) -> (usize, Option<bool>) {
    let mut n = 0;
    let mut last = None;
    for line in log.lines() {
        if line.contains("done - success") {
            n += 1;
            last = Some(true);
        } else if line.contains("done - failure") {
            n += 1;
            last = Some(false);
        }
    }
    (n, last)
}

/// Stops a helper thread when the check returns, on whatever path.
struct StopOnDrop(Arc<AtomicBool>);

impl Drop for StopOnDrop {
    fn drop(&mut self) {
        self.0.store(true, Ordering::Relaxed);
    }
}

pub struct Reloads;

impl Prop for Reloads {
    type Case = History;
    fn name(&self) -> &'static str {
        "reload-histories"
    }
    fn tape_len(&self) -> usize {
        120
    }
    fn max_shrink_iters(&self) -> u32 {
        40
    }
    fn case_timeout_s(&self) -> u64 {
        600
    }
    fn cases(&self, tier: Tier) -> u64 {
        tier.pick(96, 3_200)
    }
    fn generate(&self, g: &mut Gen) -> History {
        let n = g.range(3, 10);
        let steps = (0..n)
            .map(|_| Step {
                extras: [g.bool(), g.bool(), g.chance(1, 3)],
                hosts_extra: g.bool(),
                fault: if g.chance(2, 5) {
                    Some(g.pick(&[Fault::ZoneSyntax(true), Fault::ZoneSyntax(false), Fault::NotUtf8, Fault::FileIsDirectory, Fault::FileMissing, Fault::BadHosts, Fault::TwoSoa, Fault::DanglingLink(true), Fault::DanglingLink(false), Fault::DirsGone]))
                } else {
                    None
                },
                pad: g.pick(&[0u16, 200, 2000, 6000]),
                slow: g.chance(1, 4),
                inflight: g.chance(1, 2),
            })
            .collect();
        {
            let up = g.below(8);
            History { steps, dirs_only: g.chance(1, 4), slow_upstream: up < 2, answering_upstream: up == 2 || up == 3 }
        }
    }

    fn check(&self, h: &History) -> Outcome {
        let dir = scratch("c19");
        let l = if h.dirs_only {
            Layout { zfile: dir.join("zones.d").join("00-main.zone"), zdir: dir.join("zones.d"), hfile: dir.join("hosts.d").join("00-main.hosts"), hdir: dir.join("hosts.d"), dir: dir.clone() }
        } else {
            Layout { zfile: dir.join("main.zone"), zdir: dir.join("zones.d"), hfile: dir.join("hosts"), hdir: dir.join("hosts.d"), dir: dir.clone() }
        };
        let mut out = Outcome::pass(false).count("steps", h.steps.len() as u64);
        if std::fs::create_dir_all(&l.zdir).is_err() || std::fs::create_dir_all(&l.hdir).is_err() {
            return out.fail("harness-io", "cannot create the scratch configuration");
        }
        // version 0: a valid start configuration
        let start = Step { extras: [true, false, false], hosts_extra: false, fault: None, pad: 0, slow: false, inflight: false };
        if let Err(e) = write_config(&l, 0, &start) {
            return out.fail("harness-io", e.to_string());
        }
        let args: Vec<String> = if h.dirs_only {
            vec!["--authoritative-only".into(), "-Z".into(), l.zdir.display().to_string(), "-A".into(), l.hdir.display().to_string()]
        } else {
            vec![
                "--authoritative-only".into(),
                "-z".into(), l.zfile.display().to_string(),
                "-Z".into(), l.zdir.display().to_string(),
                "-a".into(), l.hfile.display().to_string(),
                "-A".into(), l.hdir.display().to_string(),
            ]
        };
        if h.dirs_only {
            out.classes.push("directories-only".into());
        }
        // the forwarder that never answers: a bound UDP socket nobody reads
        // (TCP to its port is refused at once), kept for the server's lifetime
        let black_hole = std::net::UdpSocket::bind("127.0.0.1:0").ok();
        let mut args = args;
        let stop_upstream = Arc::new(AtomicBool::new(false));
        let _stop_guard = StopOnDrop(stop_upstream.clone());
        if h.answering_upstream && !h.slow_upstream {
            if let Some(sock) = black_hole.as_ref().and_then(|s| s.try_clone().ok()) {
                let stop_u = stop_upstream.clone();
                let _ = sock.set_read_timeout(Some(Duration::from_millis(100)));
                std::thread::spawn(move || {
                    let mut buf = vec![0u8; 4096];
                    while !stop_u.load(Ordering::Relaxed) {
                        let Ok((n, peer)) = sock.recv_from(&mut buf) else { continue };
                        let Ok(mut m) = rwire::decode(&buf[..n]) else { continue };
                        m.qr = true;
                        m.ra = true;
                        m.answers.clear();
                        m.authority.clear();
                        m.additional.clear();
                        let _ = sock.send_to(&rwire::encode_plain(&m), peer);
                    }
                });
            }
            out.classes.push("forwarding-to-answering-forwarder".into());
        }
        if h.slow_upstream || h.answering_upstream {
            let Some(port) = black_hole.as_ref().and_then(|s| s.local_addr().ok()).map(|a| a.port()) else {
                return out.fail("harness-io", "cannot bind the black-hole forwarder");
            };
            args.retain(|a| a != "--authoritative-only");
            args.push("--forward-address".into());
            args.push(format!("127.0.0.1:{port}"));
            if h.slow_upstream {
                out.classes.push("forwarding-to-silent-forwarder".into());
            }
        }
        let mut server = match Server::start(l.dir.clone(), &args, &query("m1.v.test.", T_TXT, 0x5e5e)) {
            Ok(s) => s,
            Err(e) => return out.class("server-not-started").class(e),
        };
        let addr = server.addr;
        let mut good_ver = 0usize;
        let mut good_step = start.clone();
        let (mut n_fail, mut n_ok, mut during_total) = (0u32, 0u32, 0u64);
        let mut slow_probes = 0u64;
        let mut inflight_steps = 0u64;
        let mut merged_questions = 0u64;
        let mut max_latency_ms = 0u64;

        for (i, s) in h.steps.iter().enumerate() {
            let ver = i + 1;
            // with directories only, a missing main file is no error (and a
            // directory in a directory is skipped): those two faults become
            // "both directories gone"
            let adjusted;
            let s = if h.dirs_only && matches!(s.fault, Some(Fault::FileMissing) | Some(Fault::FileIsDirectory)) {
                adjusted = Step { fault: Some(Fault::DirsGone), ..s.clone() };
                &adjusted
            } else {
                s
            };
            let valid = s.fault.is_none();
            if h.answering_upstream && !h.slow_upstream {
                for (k, name) in ["host.lan.", "more.lan.", "second.lan."].iter().enumerate() {
                    let mut m = rwire::decode(&query(name, Q_ANY, 0x6100 + k as u16)).expect("own query");
                    m.rd = true;
                    let _ = udp_exchange(addr, &rwire::encode_plain(&m), Duration::from_secs(3));
                    merged_questions += 1;
                }
            }
            if let Err(e) = write_config(&l, ver, s) {
                return out.fail("harness-io", e.to_string());
            }
            let (before, _) = count_done(&server.log_text());
            // probes in a tight loop around the signal
            let stop = Arc::new(AtomicBool::new(false));
            let seen: Arc<Mutex<Vec<(Instant, Option<Vec<u8>>, usize, u64)>>> = Default::default();
            let (stop2, seen2) = (stop.clone(), seen.clone());
            let prober = std::thread::spawn(move || {
                let mut k = 0usize;
                while !stop2.load(Ordering::Relaxed) {
                    let (name, t) = PROBES[k % PROBES.len()];
                    let t0 = Instant::now();
                    let r = udp_exchange(addr, &query(name, t, 0x3000 + (k as u16 % 1000)), Duration::from_secs(8)).ok().flatten();
                    seen2.lock().unwrap().push((Instant::now(), r, k % PROBES.len(), t0.elapsed().as_millis() as u64));
                    k += 1;
                    // 16 shards probe 16 servers at once: leave the machine some air
                    std::thread::sleep(Duration::from_micros(300));
                }
            });
            std::thread::sleep(Duration::from_millis(3));
            let fifo = l.hdir.join("50-slow.hosts");
            let _ = std::fs::remove_file(&fifo);
            if s.slow && s.fault != Some(Fault::DirsGone) {
                let c = std::ffi::CString::new(fifo.display().to_string()).unwrap();
                if unsafe { libc::mkfifo(c.as_ptr(), 0o644) } != 0 {
                    stop.store(true, Ordering::Relaxed);
                    let _ = prober.join();
                    return out.fail("harness-io", "mkfifo failed");
                }
            }
            let mut inflight_socket = None;
            if h.slow_upstream && s.inflight {
                if let Ok(sock) = std::net::UdpSocket::bind("127.0.0.1:0") {
                    let mut m = rwire::decode(&query("slow.nonlocal.invalid.", T_A, 0x6000 + ver as u16)).expect("own query");
                    m.rd = true;
                    let _ = sock.send_to(&rwire::encode_plain(&m), addr);
                    inflight_socket = Some(sock);
                    inflight_steps += 1;
                    std::thread::sleep(Duration::from_millis(40));
                }
            }
            let t_signal = Instant::now();
            server.signal(libc::SIGUSR1);
            // (failures of the slow phase are reported after the prober thread has been stopped)
            let mut slow_failure: Option<(&'static str, String)> = None;
            if s.slow && s.fault != Some(Fault::DirsGone) {
                // the load is stuck on the FIFO (or has not reached it yet):
                // the server must keep answering, from the old configuration
                std::thread::sleep(Duration::from_millis(30));
                let mut verdicts: Vec<(&'static str, String)> = Vec::new();
                let mut answered = 0u64;
                for (k, (name, t)) in PROBES.iter().enumerate() {
                    let r = udp_exchange(addr, &query(name, *t, 0x5000 + k as u16), Duration::from_secs(3)).ok().flatten();
                    let Some(r) = r else {
                        verdicts.push(("unanswered-while-loading", format!("{name} got no reply within 3 s while reload {ver} was reading a slow file")));
                        break;
                    };
                    let Ok(m) = rwire::decode(&r) else {
                        verdicts.push(("reply-not-well-formed", format!("{name} during slow reload {ver}")));
                        break;
                    };
                    let ms = markers(&m);
                    if ms.is_empty() || ms.iter().any(|x| *x != good_ver) {
                        verdicts.push(("not-old-configuration-while-loading", format!("{name} during slow reload {ver}: versions {ms:?}, the configuration in force is {good_ver}")));
                        break;
                    }
                    answered += 1;
                }
                // did the load really block?  If the 'done' line is there before
                // the FIFO was fed, the loader passed the FIFO by (it reads
                // regular files only, say): the probes prove nothing then
                let (n_now, _) = count_done(&server.log_text());
                if n_now > before {
                    out.classes.push("slow-reload:fifo-not-read-by-loader".into());
                } else {
                    slow_probes += answered;
                    slow_failure = verdicts.into_iter().next();
                    // now feed the FIFO (non-blocking open: ENXIO until the loader has opened it)
                    let deadline = Instant::now() + Duration::from_secs(20);
                    let mut fed = false;
                    while Instant::now() < deadline && server.alive() {
                        use std::io::Write;
                        use std::os::unix::fs::OpenOptionsExt;
                        match std::fs::OpenOptions::new().write(true).custom_flags(libc::O_NONBLOCK).open(&fifo) {
                            Ok(mut f) => {
                                let _ = f.write_all(b"# slow file, nothing in it\n");
                                fed = true;
                                break;
                            }
                            Err(_) => {
                                if count_done(&server.log_text()).0 > before {
                                    break;
                                }
                                std::thread::sleep(Duration::from_millis(5));
                            }
                        }
                    }
                    if !fed {
                        out.classes.push("slow-reload:fifo-never-opened".into());
                    }
                }
            }
            // wait for the log line
            let mut outcome = None;
            while t_signal.elapsed() < Duration::from_secs(30) {
                let (n, last) = count_done(&server.log_text());
                if n > before {
                    outcome = last;
                    break;
                }
                if !server.alive() {
                    break;
                }
                std::thread::sleep(Duration::from_millis(2));
            }
            let t_done = Instant::now();
            let _ = std::fs::remove_file(&fifo);
            std::thread::sleep(Duration::from_millis(3));
            stop.store(true, Ordering::Relaxed);
            let _ = prober.join();
            if let Some((sig, detail)) = slow_failure {
                return out.fail(sig, detail);
            }
            if !server.alive() {
                return out.fail("server-died", format!("during reload {ver}: {}", server.log_text().lines().rev().take(5).collect::<Vec<_>>().join(" | ")));
            }
            let Some(success) = outcome else {
                return out.fail("reload-never-finished", format!("no 'done' line within 30 s after SIGUSR1 in step {ver}"));
            };
            if success != valid {
                return out.fail(
                    if success { "bad-configuration-reported-loaded" } else { "good-configuration-rejected" },
                    format!("step {ver} ({:?}): log says {}", s.fault, if success { "success" } else { "failure" }),
                );
            }
            let prev_good = good_ver;
            if success {
                good_ver = ver;
                good_step = s.clone();
                n_ok += 1;
            } else {
                n_fail += 1;
            }
            // replies seen around the reload: internally consistent, old or new good version
            drop(inflight_socket);
            for (t, r, pk, latency_ms) in seen.lock().unwrap().iter() {
                // "keeps answering throughout": local names are answered from
                // memory; seconds of delay mean the query was held up
                max_latency_ms = max_latency_ms.max(*latency_ms);
                if *latency_ms > 3_000 {
                    return out.fail("probe-stalled", format!("probe {:?} around reload {ver} was answered after {latency_ms} ms{}", PROBES[*pk], if h.slow_upstream && s.inflight { " (a question for the silent forwarder was in flight)" } else { "" }));
                }
                let Some(r) = r else {
                    return out.fail("probe-unanswered", format!("probe {:?} got no reply around reload {ver}", PROBES[*pk]));
                };
                let Ok(m) = rwire::decode(r) else { return out.fail("reply-not-well-formed", format!("around reload {ver}")) };
                let ms = markers(&m);
                if ms.is_empty() {
                    return out.fail("probe-lost-its-answer", format!("probe {:?} around reload {ver}: rcode {} and no version marker", PROBES[*pk], m.rcode));
                }
                if ms.iter().any(|x| *x != ms[0]) {
                    return out.fail("mixed-versions-in-one-reply", format!("probe {:?} around reload {ver}: versions {ms:?}", PROBES[*pk]));
                }
                if ms[0] != prev_good && ms[0] != good_ver {
                    return out.fail("unexpected-version-during-reload", format!("probe {:?} around reload {ver}: version {} (previous good {prev_good}, now good {good_ver})", PROBES[*pk], ms[0]));
                }
                if *t >= t_signal && *t <= t_done {
                    during_total += 1;
                }
            }
            // after the reload: exactly the good version, everywhere
            for (k, (name, t)) in PROBES.iter().enumerate() {
                let Some(r) = udp_exchange(addr, &query(name, *t, 0x4000 + k as u16), Duration::from_secs(5)).ok().flatten() else {
                    return out.fail("probe-unanswered", format!("{name} after reload {ver}"));
                };
                let Ok(m) = rwire::decode(&r) else { return out.fail("reply-not-well-formed", format!("{name} after reload {ver}")) };
                let ms = markers(&m);
                if ms.is_empty() || ms.iter().any(|x| *x != good_ver) {
                    return out.fail(
                        if success { "new-configuration-not-in-force" } else { "failed-reload-changed-configuration" },
                        format!("{name} after reload {ver} ({}): versions {ms:?}, expected {good_ver}", if success { "success" } else { "failure" }),
                    );
                }
            }
            // added / removed files
            for k in 0..3 {
                let name = format!("extra.x{k}.test.");
                let r = udp_exchange(addr, &query(&name, T_TXT, 0x4100 + k as u16), Duration::from_secs(5)).ok().flatten();
                let Some(r) = r else { return out.fail("probe-unanswered", format!("{name} after reload {ver}")) };
                let Ok(m) = rwire::decode(&r) else { return out.fail("reply-not-well-formed", name) };
                let ms = markers(&m);
                if good_step.extras[k] {
                    if ms != vec![good_ver] {
                        return out.fail("added-record-missing", format!("{name} after reload {ver}: versions {ms:?}, expected [{good_ver}]"));
                    }
                } else if !ms.is_empty() {
                    return out.fail("removed-record-still-served", format!("{name} after reload {ver}: versions {ms:?} although its file is not part of configuration {good_ver}"));
                }
            }
            let r = udp_exchange(addr, &query("more.lan.", T_A, 0x4200), Duration::from_secs(5)).ok().flatten();
            if let Some(m) = r.and_then(|r| rwire::decode(&r).ok()) {
                let ms = markers(&m);
                if good_step.hosts_extra && ms != vec![good_ver] {
                    return out.fail("added-record-missing", format!("more.lan. after reload {ver}: {ms:?}"));
                }
                if !good_step.hosts_extra && !ms.is_empty() {
                    return out.fail("removed-record-still-served", format!("more.lan. after reload {ver}: {ms:?}"));
                }
            }
        }
        out.counts.push(("reloads-succeeding", u64::from(n_ok)));
        out.counts.push(("reloads-failing", u64::from(n_fail)));
        out.counts.push(("replies-during-reload-window", during_total));
        out.counts.push(("probes-answered-while-load-blocked", slow_probes));
        out.counts.push(("reloads-with-an-upstream-question-in-flight", inflight_steps));
        out.counts.push(("any-questions-merging-local-and-upstream-data", merged_questions));
        out.classes.push(format!("slowest-probe:{}", match max_latency_ms { 0..=99 => "<100ms", 100..=499 => "<500ms", 500..=999 => "<1s", 1000..=1999 => "1..2s", _ => "2..3s" }));
        stop_upstream.store(true, Ordering::Relaxed);
        if slow_probes > 0 {
            out.classes.push("slow-reload".into());
        }
        out.nontrivial = n_ok >= 1 && n_fail >= 1 && during_total >= 1;
        drop(server);
        out
    }
}

#[allow(dead_code)]
fn unused(_: &Path) {}

pub fn def() -> PropertyDef {
    PropertyDef {
        id: "C19",
        level: "fault_enumeration",
        rule: "One `resolved --authoritative-only` process per history (shipped binary, guard off, RUST_LOG=info) configured with an explicit zone file (-z), a zone directory (-Z; one history in four uses directories only, the main zone and hosts files living inside them; one history in four runs the server in forwarding mode towards a forwarder that never answers and puts, in half of its steps, a question about a non-local name just before the signal, so that the reload coincides with a resolution waiting for its upstream; every probe must be answered within 3 s (the stall of defect F16 was 5 s); another history in four forwards to a forwarder that answers at once with empty replies, and asks the hosts names with QTYPE ANY and RD set before every reload (local and upstream data merged into one answer; the cache outlives the reload, so nothing local may get into it): one zone with 0..6000 padding records so that loading takes milliseconds, plus up to three optional zone files), a hosts file (-a) and a hosts directory (-A). A history has 3..10 steps; step v rewrites every file so that each record carries the version v in its data (TXT text, address octet, SOA serial, CNAME TTL), adds or removes the optional files, and with probability 2/5 plants one fault (syntax error in the explicit or in a directory zone file, a non-UTF-8 file, the explicit file replaced by a directory or removed, a malformed hosts line, a second SOA, a dangling symbolic link in the zone or the hosts directory, both directories renamed away), then sends SIGUSR1 and waits for the 'done - success|failure' log line while a thread fires probes in a tight loop (several A records, TXT, ANY, an alias crossing two files, a hosts entry); one step in four is a slow reload: a writer-less FIFO in the hosts directory blocks the load, six probes sent meanwhile must each be answered within 3 s from the configuration in force, then the FIFO is fed. Oracle: the log says success iff the step planted no fault; every reply around the reload has markers that all agree and name the previous or the new good version; after the reload every probe shows exactly the good version (the new one after success, the previous good one after failure), optional records are present iff their file belongs to that configuration; every probe is answered and the process stays alive. Non-trivial = the history has a succeeding and a failing reload and at least one reply fell between signal and log line. Distinct by hash of the history.",
        assumptions: vec!["timing of probes relative to the swap is the operating system's (not controlled); the count of replies inside the reload window is reported"],
        parts: vec![Box::new(Reloads)],
        budget_s: |t| t.pick(1200, 10_800),
        needs_repo_bins: true,
    }
}

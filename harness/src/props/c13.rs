//! C13 — writing a zone to text and reading it back changes nothing.

use std::io::Write as _;
use std::process::{Command, Stdio};

use dns_types::zones::types::Zone;
use serde::{Deserialize, Serialize};

use crate::engine::{Outcome, Prop, PropertyDef, Tier};
use crate::gen::Gen;
use crate::rwire::WData;
use crate::rzone::*;
use crate::util::N;
use crate::ztext::*;

pub const ZTOZ: &str = "/verif/target/repo-bins/release/ztoz";

#[derive(Debug, Clone, PartialEq, Eq, Hash, Serialize, Deserialize)]
pub struct TextCase {
    pub text: String,
}

fn names_of(z: &ZoneModel) -> Vec<N> {
    let mut v = Vec::new();
    for r in &z.recs {
        if !r.wild {
            v.push(r.owner.clone());
        }
        match &r.data {
            WData::Name(n) | WData::Mx(_, n) | WData::Srv(_, _, _, n) => v.push(n.clone()),
            WData::Minfo(a, b) => {
                v.push(a.clone());
                v.push(b.clone());
            }
            WData::Soa { mname, rname, .. } => {
                v.push(mname.clone());
                v.push(rname.clone());
            }
            _ => {}
        }
    }
    v
}

/// Root-cause signatures (DESIGN Appendix D), from the records that were
/// lost (when the re-read zone is at hand): every lost record must show the
/// feature, so that another loss in a zone that happens to contain an `@`
/// label keeps its own signature.
fn signature_with(z: &ZoneModel, reread: Option<&ZoneModel>, default: &str) -> String {
    let auth_nonroot = z.soa.is_some() && !z.apex.0.is_empty();
    let lost: Vec<ZRec> = match reread {
        Some(m2) => {
            let (a, b) = (z.canonical().2, m2.canonical().2);
            a.into_iter().filter(|r| !b.contains(r)).collect()
        }
        None => z.recs.clone(),
    };
    let one = |r: &ZRec| ZoneModel { apex: z.apex.clone(), soa: None, recs: vec![r.clone()] };
    if auth_nonroot && !lost.is_empty() {
        let at = z.apex.child(b"@");
        let mentions_at = |r: &ZRec| names_of(&one(r)).iter().any(|n| n.lower() == at);
        if (reread.is_some() && lost.iter().all(mentions_at)) || (reread.is_none() && lost.iter().any(mentions_at)) {
            return "at-label-relative".to_string();
        }
    }
    let star = |r: &ZRec| !r.wild && r.owner.0.first().map_or(false, |l| l == b"*");
    if !lost.is_empty() && ((reread.is_some() && lost.iter().all(star)) || (reread.is_none() && lost.iter().any(star))) {
        return "star-label-owner".to_string();
    }
    default.to_string()
}

fn signature(z: &ZoneModel, default: &str) -> String {
    signature_with(z, None, default)
}

fn features(z: &ZoneModel, text: &str, out: &mut Outcome) -> bool {
    let needs_esc = |b: u8| b == b'"' || b == b'\\' || b == b';' || b == b'(' || b == b')' || b <= 32 || b > 126;
    let mut esc = false;
    for n in names_of(z).iter().chain(std::iter::once(&z.apex)) {
        if n.0.iter().any(|l| l.iter().any(|b| needs_esc(*b))) {
            esc = true;
        }
    }
    for r in &z.recs {
        if let WData::Opaque(o) = &r.data {
            if o.iter().any(|b| needs_esc(*b) && *b != b' ') {
                esc = true;
            }
        }
    }
    let relative = z.soa.is_some() && !z.apex.0.is_empty() && text.contains("$ORIGIN");
    if esc {
        out.classes.push("needs-escaping".into());
    }
    if relative {
        out.classes.push("relative-names".into());
    }
    if z.recs.iter().any(|r| r.wild) {
        out.classes.push("wildcards".into());
    }
    esc || relative
}

/// serialise -> parse -> equal; twice.
pub fn roundtrip_zone(z: &Zone, out: &mut Outcome) -> Result<(), (String, String)> {
    let model = ZoneModel::from_impl(z);
    let s1 = z.serialise();
    out.nontrivial = features(&model, &s1, out);
    let z2 = match Zone::deserialise(&s1) {
        Ok(z2) => z2,
        Err(e) => return Err((signature(&model, "serialised-text-rejected"), format!("{e:?} for serialised text:\n{s1}"))),
    };
    let m2 = ZoneModel::from_impl(&z2);
    if m2.canonical() != model.canonical() {
        return Err((signature_with(&model, Some(&m2), "roundtrip-differs"), diff(&model, &m2, &s1)));
    }
    let s2 = z2.serialise();
    let z3 = match Zone::deserialise(&s2) {
        Ok(z) => z,
        Err(e) => return Err((signature(&model, "second-serialisation-rejected"), format!("{e:?} for\n{s2}"))),
    };
    if ZoneModel::from_impl(&z3).canonical() != model.canonical() {
        return Err((signature(&model, "second-roundtrip-differs"), "normalising twice changed the zone".into()));
    }
    Ok(())
}

fn diff(a: &ZoneModel, b: &ZoneModel, text: &str) -> String {
    let (ca, cb) = (a.canonical(), b.canonical());
    let missing: Vec<_> = ca.2.iter().filter(|r| !cb.2.contains(r)).take(3).collect();
    let extra: Vec<_> = cb.2.iter().filter(|r| !ca.2.contains(r)).take(3).collect();
    format!(
        "apex {} -> {}, soa equal: {}, lost {missing:?}, gained {extra:?}\n--- serialised ---\n{text}",
        ca.0,
        cb.0,
        ca.1 == cb.1
    )
}

pub struct FromText;

fn gen_text(g: &mut Gen) -> String {
    // a rare, syntactically legal way to obtain an ordinary owner whose first
    // label is "*": make it the origin
    if g.chance(1, 60) {
        return format!(
            "$ORIGIN example.com.\n@ IN SOA ns mail 1 2 3 4 5\n$ORIGIN *.{}example.com.\n@ 300 IN A 10.0.0.1\n",
            if g.bool() { "" } else { "a." }
        );
    }
    let zone = super::c11::gen_denotation(g, true);
    render(
        g,
        &zone,
        &RenderOpts {
            layout_noise: true,
            inheritance: true,
            origin_changes: true,
        },
    )
    .0
}

impl Prop for FromText {
    type Case = TextCase;
    fn name(&self) -> &'static str {
        "from-text"
    }
    fn tape_len(&self) -> usize {
        800
    }
    fn cases(&self, tier: Tier) -> u64 {
        tier.pick(150_000, 4_000_000)
    }
    fn generate(&self, g: &mut Gen) -> TextCase {
        TextCase { text: gen_text(g) }
    }
    fn check(&self, c: &TextCase) -> Outcome {
        let mut out = Outcome::pass(false);
        let z = match Zone::deserialise(&c.text) {
            Ok(z) => z,
            // whether valid text is accepted is C11's business
            Err(_) => return out.class("input-not-parsed"),
        };
        out.classes.push(if z.is_authoritative() { "authoritative".into() } else { "non-authoritative".into() });
        match roundtrip_zone(&z, &mut out) {
            Ok(()) => out,
            Err((s, d)) => out.fail(s, d),
        }
    }
}

/// Zones built through the insertion API (labels ASCII, no dot, not
/// starting with `*`; non-authoritative zones have the root apex).
#[derive(Debug, Clone, PartialEq, Eq, Hash, Serialize, Deserialize)]
pub struct ApiCase {
    pub zone: ZoneModel,
}

pub struct FromApi;

impl Prop for FromApi {
    type Case = ApiCase;
    fn name(&self) -> &'static str {
        "from-api"
    }
    fn tape_len(&self) -> usize {
        400
    }
    fn cases(&self, tier: Tier) -> u64 {
        tier.pick(20_000, 1_000_000)
    }
    fn generate(&self, g: &mut Gen) -> ApiCase {
        let mut zone = super::c11::gen_denotation(g, true);
        // precondition on labels
        let ok = |n: &mut N| {
            for l in &mut n.0 {
                for b in l.iter_mut() {
                    if *b == b'.' || *b >= 128 {
                        *b = b'x';
                    }
                }
                if l.first() == Some(&b'*') {
                    l[0] = b's';
                }
            }
        };
        for r in &mut zone.recs {
            ok(&mut r.owner);
            match &mut r.data {
                WData::Name(n) | WData::Mx(_, n) | WData::Srv(_, _, _, n) => ok(n),
                WData::Minfo(a, b) => {
                    ok(a);
                    ok(b);
                }
                _ => {}
            }
        }
        ApiCase { zone }
    }
    fn check(&self, c: &ApiCase) -> Outcome {
        let mut out = Outcome::pass(false).class("api-built");
        let z = c.zone.to_impl();
        match roundtrip_zone(&z, &mut out) {
            Ok(()) => out,
            Err((s, d)) => out.fail(s, d),
        }
    }
}

/// The same through the `ztoz` binary (guard off), twice.
pub struct Ztoz;

pub fn run_filter(bin: &str, args: &[&str], input: &str) -> Result<(bool, String), String> {
    let mut child = Command::new(bin)
        .args(args)
        .stdin(Stdio::piped())
        .stdout(Stdio::piped())
        .stderr(Stdio::null())
        .spawn()
        .map_err(|e| format!("cannot run {bin}: {e}"))?;
    {
        let mut stdin = child.stdin.take().unwrap();
        let data = input.as_bytes().to_vec();
        // write from a thread so that a full pipe cannot deadlock us
        std::thread::spawn(move || {
            let _ = stdin.write_all(&data);
        });
    }
    let outp = child.wait_with_output().map_err(|e| e.to_string())?;
    Ok((outp.status.success(), String::from_utf8_lossy(&outp.stdout).to_string()))
}

impl Prop for Ztoz {
    type Case = TextCase;
    fn name(&self) -> &'static str {
        "ztoz-binary"
    }
    fn max_shrink_iters(&self) -> u32 {
        400
    }
    fn tape_len(&self) -> usize {
        800
    }
    fn cases(&self, tier: Tier) -> u64 {
        tier.pick(800, 40_000)
    }
    fn generate(&self, g: &mut Gen) -> TextCase {
        TextCase { text: gen_text(g) }
    }
    fn check(&self, c: &TextCase) -> Outcome {
        let mut out = Outcome::pass(false);
        let z = match Zone::deserialise(&c.text) {
            Ok(z) => z,
            Err(_) => return out.class("input-not-parsed"),
        };
        let model = ZoneModel::from_impl(&z);
        out.nontrivial = features(&model, &c.text, &mut out);
        let (ok1, out1) = match run_filter(ZTOZ, &[], &c.text) {
            Ok(x) => x,
            Err(e) => return out.fail("harness-cannot-run-ztoz", e),
        };
        if !ok1 {
            return out.fail("ztoz-rejects-parseable-input", "ztoz exited with failure");
        }
        let check = |text: &str, what: &str| -> Result<(), (String, String)> {
            match Zone::deserialise(text) {
                Ok(zz) if ZoneModel::from_impl(&zz).canonical() == model.canonical() => Ok(()),
                Ok(zz) => Err((signature_with(&model, Some(&ZoneModel::from_impl(&zz)), "ztoz-changes-meaning"), format!("{what}: {}", diff(&model, &ZoneModel::from_impl(&zz), text)))),
                Err(e) => Err((signature(&model, "ztoz-output-rejected"), format!("{what}: {e:?}\n{text}"))),
            }
        };
        if let Err((s, d)) = check(&out1, "first pass") {
            return out.fail(s, d);
        }
        let (ok2, out2) = match run_filter(ZTOZ, &[], &out1) {
            Ok(x) => x,
            Err(e) => return out.fail("harness-cannot-run-ztoz", e),
        };
        if !ok2 {
            return out.fail(signature(&model, "ztoz-rejects-own-output"), out1);
        }
        match check(&out2, "second pass") {
            Ok(()) => out,
            Err((s, d)) => out.fail(s, d),
        }
    }
}

pub fn classify_text(b: &[u8]) -> Option<(String, String, &'static str, serde_json::Value)> {
    let text = std::str::from_utf8(b).ok()?;
    let z = Zone::deserialise(text).ok()?;
    let mut out = Outcome::pass(false);
    match roundtrip_zone(&z, &mut out) {
        Ok(()) => None,
        Err((s, d)) => Some((s, d, "from-text", serde_json::json!({ "text": text }))),
    }
}

pub fn def() -> PropertyDef {
    PropertyDef {
        id: "C13",
        level: "exploration",
        rule: "from-text: zones obtained by parsing generated master-file text (C11 renderer) whose labels range over ASCII octets incl. quotes, backslashes, semicolons, parentheses, blanks, @, *, #, $, control characters and DEL, RDATA over all 256 octets, authoritative and not, root and non-root apex, wildcard and apex records, RDATA names at/below/outside the apex; from-api: zones built through the insertion API under the stated label precondition; oracle for both: deserialise(serialise(z)) is Ok and equal to z (apex, SOA, sorted multisets of normal and wildcard (owner, rdata, ttl)), and once more for the second normalisation. ztoz-binary: the same text through the shipped ztoz binary, and its output through ztoz again; both outputs parse to the same zone. Non-trivial = some label or RDATA needs escaping, or names are rendered relative to a non-root apex. Distinct by hash of the text / zone.",
        assumptions: vec![
            "non-authoritative zones have the root apex; API-built zones use supported types only (deviation D7)",
            "byte equality of the two normalisations is not demanded (record order within a name follows HashMap order)",
        ],
        parts: vec![
            Box::new(crate::fuzzrun::CorpusPart { name: "corpus", target: "zone_roundtrip", classify: classify_text }),
            Box::new(crate::fuzzrun::FuzzPart { name: "fuzz-zone_roundtrip", target: "zone_roundtrip", runs_per_job: 400_000, jobs: 8, max_len: 2_048, classify: classify_text }),
            Box::new(FromText),
            Box::new(FromApi),
            Box::new(Ztoz),
        ],
        budget_s: |t| t.pick(900, 10_800),
        needs_repo_bins: true,
    }
}

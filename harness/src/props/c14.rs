//! C14 — hosts files are read as hosts(5) describes and convert losslessly.

use std::collections::BTreeMap;

use dns_types::hosts::types::Hosts;
use dns_types::protocol::types::*;
use dns_types::zones::types::{Zone, ZoneResult};
use serde::{Deserialize, Serialize};

use crate::engine::{Outcome, Prop, PropertyDef, Tier};
use crate::gen::Gen;
use crate::util::N;

pub const HTOH: &str = "/verif/target/repo-bins/release/htoh";
pub const HTOZ: &str = "/verif/target/repo-bins/release/htoz";
pub const ZTOH: &str = "/verif/target/repo-bins/release/ztoh";

#[derive(Debug, Clone, PartialEq, Eq, Hash, Serialize, Deserialize)]
pub enum Line {
    /// `addr names... [comment]`
    Map {
        lead: String,
        addr: String,
        names: Vec<(String, String)>, // (separator before, name text)
        /// text appended after the last name (blanks and/or a comment)
        tail: String,
    },
    /// blank line, comment line, address-only line, `%iface` line
    Inert(String),
}

#[derive(Debug, Clone, PartialEq, Eq, Hash, Serialize, Deserialize)]
pub struct Case {
    pub lines: Vec<Line>,
    pub fault: bool,
    pub unix_newlines: bool,
}

impl Case {
    pub fn text(&self) -> String {
        let mut s = String::new();
        for l in &self.lines {
            match l {
                Line::Map { lead, addr, names, tail } => {
                    s.push_str(lead);
                    s.push_str(addr);
                    for (sep, n) in names {
                        s.push_str(sep);
                        s.push_str(n);
                    }
                    s.push_str(tail);
                }
                Line::Inert(t) => s.push_str(t),
            }
            s.push_str(if self.unix_newlines { "\n" } else { "\r\n" });
        }
        s
    }
}

#[derive(Debug, Clone, PartialEq, Eq, Default)]
pub struct HostsModel {
    pub v4: BTreeMap<N, std::net::Ipv4Addr>,
    pub v6: BTreeMap<N, std::net::Ipv6Addr>,
}

/// Reference reading of a name in a hosts file (relative to the root).
fn ref_name(s: &str) -> Option<N> {
    if !s.is_ascii() {
        return None;
    }
    if s == "." {
        return Some(N::root());
    }
    let body = s.strip_suffix('.').unwrap_or(s);
    let labels: Vec<Vec<u8>> = body.split('.').map(|l| l.as_bytes().to_ascii_lowercase()).collect();
    if labels.iter().any(|l| l.is_empty() || l.len() > 63) {
        return None;
    }
    if 1 + labels.iter().map(|l| 1 + l.len()).sum::<usize>() > 255 {
        return None;
    }
    Some(N(labels))
}

/// Reference reading of a whole file: `Err` = must be rejected, `Ok(None)`
/// inside = unspecified.
pub fn ref_parse(c: &Case) -> Result<HostsModel, String> {
    let mut m = HostsModel::default();
    for l in &c.lines {
        if let Line::Map { addr, names, .. } = l {
            let ip: std::net::IpAddr = addr.parse().map_err(|_| format!("bad address {addr}"))?;
            for (_, n) in names {
                let name = ref_name(n).ok_or_else(|| format!("bad name {n}"))?;
                match ip {
                    std::net::IpAddr::V4(a) => {
                        m.v4.insert(name, a);
                    }
                    std::net::IpAddr::V6(a) => {
                        m.v6.insert(name, a);
                    }
                }
            }
        }
    }
    Ok(m)
}

pub fn model_of(h: &Hosts) -> HostsModel {
    HostsModel {
        v4: h.v4.iter().map(|(k, v)| (N::from_domain(k), *v)).collect(),
        v6: h.v6.iter().map(|(k, v)| (N::from_domain(k), *v)).collect(),
    }
}

fn gen_blank(g: &mut Gen, at_least_one: bool) -> String {
    let n = g.range(if at_least_one { 1 } else { 0 }, 3);
    (0..n).map(|_| if g.chance(1, 3) { '\t' } else { ' ' }).collect()
}

fn gen_comment(g: &mut Gen) -> String {
    g.pick(&["# comment", "#", "#nospace", "# 1.2.3.4 other.name", "# caf\u{e9} \u{2028}", "#\u{e9}", "## two"]).to_string()
}

fn gen_name(g: &mut Gen) -> String {
    let k = g.range(1, 4);
    let mut parts = Vec::new();
    for _ in 0..k {
        parts.push(g.pick(&["host", "a", "B", "Printer-1", "example", "COM", "lan", "x_y", "0"]).to_string());
    }
    let mut s = parts.join(".");
    if g.chance(1, 5) {
        s.push('.');
    }
    s
}

fn gen_v4(g: &mut Gen) -> String {
    match g.weighted(&[5, 1, 1, 2]) {
        0 => format!("10.{}.{}.{}", g.below(2), g.below(3), g.below(4)),
        3 => format!("{}.{}.{}.{}", g.u8(), g.u8(), g.u8(), g.u8()),
        1 => "0.0.0.0".into(),
        _ => "255.255.255.255".into(),
    }
}

fn gen_v6(g: &mut Gen) -> String {
    let low = g.below(4);
    match g.weighted(&[3, 2, 2, 2, 1, 1, 2, 1]) {
        0 => format!("fd00::{low}"),
        // long printed forms: eight arbitrary groups, or a gap in the middle
        6 => (0..8).map(|_| format!("{:x}", g.below(0x10000))).collect::<Vec<_>>().join(":"),
        7 => format!("2a00:{:x}:{:x}:{:x}::{:x}", g.range(0x100, 0xffff), g.range(0x100, 0xffff), g.range(0x100, 0xffff), g.range(0x100, 0xffff)),
        1 => format!("FD00:0:0:0:0:0:0:{low}"),
        2 => format!("fd00:0000:0000:0000:0000:0000:0000:000{low}"),
        3 => "::".into(),
        4 => format!("::ffff:10.0.0.{low}"),
        _ => "::1".into(),
    }
}

fn gen_line(g: &mut Gen, fault: &mut bool, want_fault: bool) -> Line {
    match g.weighted(&[10, 1, 1, 1, 1]) {
        0 => {
            let lead = gen_blank(g, false);
            let mut addr = if g.chance(2, 3) { gen_v4(g) } else { gen_v6(g) };
            let n = g.range(1, 4);
            let mut names: Vec<(String, String)> = (0..n).map(|_| (gen_blank(g, true), gen_name(g))).collect();
            if want_fault && !*fault && g.chance(1, 3) {
                *fault = true;
                if g.bool() {
                    addr = g.pick(&["1.2.3", "1.2.3.256", "gggg::1", "1.2.3.4.5", "fd00:::1", "localhost"]).to_string();
                } else {
                    let i = g.below(names.len());
                    names[i].1 = match g.below(4) {
                        0 => "a..b".into(),
                        1 => format!("{}.lan", "x".repeat(64)),
                        2 => vec!["y".repeat(60); 5].join("."),
                        _ => "caf\u{e9}.lan".into(),
                    };
                }
            }
            let tail = match g.weighted(&[5, 2, 2, 2]) {
                0 => String::new(),
                1 => gen_blank(g, true),
                2 => format!("{}{}", gen_blank(g, true), gen_comment(g)),
                _ => gen_comment(g), // glued to the last name
            };
            Line::Map { lead, addr, names, tail }
        }
        1 => Line::Inert(gen_blank(g, false)),
        2 => Line::Inert(format!("{}{}", gen_blank(g, false), gen_comment(g))),
        3 => {
            // address only (with or without trailing blanks / comment)
            let a = if g.bool() { gen_v4(g) } else { gen_v6(g) };
            match g.below(3) {
                0 => Line::Inert(a),
                1 => Line::Inert(format!("{a}{}", gen_blank(g, true))),
                _ => Line::Inert(format!("{a}{}", gen_comment(g))),
            }
        }
        _ => Line::Inert(format!("fe80::1%eth{}{}{}", g.below(2), gen_blank(g, true), gen_name(g))),
    }
}

pub fn gen_case(g: &mut Gen) -> Case {
    let want_fault = g.chance(1, 6);
    let mut fault = false;
    let n = g.range(0, 10);
    let mut lines: Vec<Line> = (0..n).map(|_| gen_line(g, &mut fault, want_fault)).collect();
    // a line that comes back verbatim further down (blocklists repeat
    // themselves; between the two copies another line may have remapped
    // the name)
    if lines.len() >= 2 && g.chance(1, 3) {
        let from = g.below(lines.len() - 1);
        let copy = lines[from].clone();
        let at = g.range(from + 2, lines.len());
        lines.insert(at, copy);
    }
    Case { lines, fault, unix_newlines: !g.chance(1, 8) }
}

fn glued_comment(c: &Case) -> bool {
    c.lines.iter().any(|l| match l {
        Line::Map { tail, .. } => tail.starts_with('#') || tail.chars().any(|ch| !ch.is_ascii()),
        Line::Inert(t) => t.contains('#') && t.chars().any(|ch| !ch.is_ascii()),
    })
}

fn has_conflict(c: &Case) -> bool {
    let mut seen: BTreeMap<(N, bool), String> = BTreeMap::new();
    for l in &c.lines {
        if let Line::Map { addr, names, .. } = l {
            for (_, n) in names {
                if let Some(nn) = ref_name(n) {
                    let k = (nn, addr.contains(':'));
                    if let Some(old) = seen.insert(k, addr.clone()) {
                        if old != *addr {
                            return true;
                        }
                    }
                }
            }
        }
    }
    false
}

/// Conversions: serialise round trip, zone and back.
pub fn check_conversions(h: &Hosts) -> Result<(), (String, String)> {
    let text = h.serialise();
    match Hosts::deserialise(&text) {
        Ok(h2) if &h2 == h => {}
        Ok(_) => return Err(("serialise-roundtrip-differs".into(), format!("hosts data changed through\n{text}"))),
        Err(e) => return Err(("serialised-hosts-rejected".into(), format!("{e:?} for\n{text}"))),
    }
    let zone = Zone::from(h.clone());
    let mut n = 0;
    for (_, zrs) in zone.all_records() {
        for zr in zrs {
            n += 1;
            let ok = matches!(zr.rtype_with_data, RecordTypeWithData::A { .. } | RecordTypeWithData::AAAA { .. }) && zr.ttl == 5;
            if !ok {
                return Err(("zone-record-wrong".into(), format!("{zr:?}")));
            }
        }
    }
    if n != h.v4.len() + h.v6.len() || !zone.all_wildcard_records().is_empty() {
        return Err(("zone-record-count".into(), format!("{n} records for {} mappings", h.v4.len() + h.v6.len())));
    }
    if zone.is_authoritative() || !zone.get_apex().is_root() {
        return Err(("zone-not-nonauthoritative-root".into(), "hosts zone must be the non-authoritative root zone".into()));
    }
    for (name, addr) in &h.v4 {
        match zone.resolve(name, QueryType::Record(RecordType::A)) {
            Some(ZoneResult::Answer { rrs }) if rrs.len() == 1 && rrs[0].rtype_with_data == (RecordTypeWithData::A { address: *addr }) && rrs[0].name == *name => {}
            other => return Err(("zone-does-not-resolve".into(), format!("{name} A -> {other:?}"))),
        }
    }
    for (name, addr) in &h.v6 {
        match zone.resolve(name, QueryType::Record(RecordType::AAAA)) {
            Some(ZoneResult::Answer { rrs }) if rrs.len() == 1 && rrs[0].rtype_with_data == (RecordTypeWithData::AAAA { address: *addr }) => {}
            other => return Err(("zone-does-not-resolve".into(), format!("{name} AAAA -> {other:?}"))),
        }
    }
    match Hosts::try_from(zone.clone()) {
        Ok(back) if &back == h => {}
        other => return Err(("zone-to-hosts-differs".into(), format!("{:?}", other.map(|_| "different hosts")))),
    }
    if &Hosts::from_zone_lossy(&zone) != h {
        return Err(("zone-to-hosts-lossy-differs".into(), String::new()));
    }
    Ok(())
}

pub struct Files;

impl Prop for Files {
    type Case = Case;
    fn name(&self) -> &'static str {
        "files"
    }
    fn tape_len(&self) -> usize {
        300
    }
    fn cases(&self, tier: Tier) -> u64 {
        tier.pick(300_000, 6_000_000)
    }
    fn generate(&self, g: &mut Gen) -> Case {
        gen_case(g)
    }
    fn check(&self, c: &Case) -> Outcome {
        let text = c.text();
        let glued = glued_comment(c);
        let conflict = has_conflict(c);
        let mut out = Outcome::pass(glued || conflict);
        if glued {
            out.classes.push("comment-adjacent-or-nonascii".into());
        }
        if conflict {
            out.classes.push("conflicting-lines".into());
        }
        let want = ref_parse(c);
        let sig = |d: &str| if glued { "comment-glued-to-name".to_string() } else { d.to_string() };
        match (Hosts::deserialise(&text), want) {
            (Ok(h), Ok(m)) => {
                if model_of(&h) != m {
                    return out.fail(sig("wrong-mappings"), format!("parsed {:?}, hosts(5) reading {:?}\n--- text ---\n{text}", model_of(&h), m));
                }
                out.classes.push("parsed".into());
                match check_conversions(&h) {
                    Ok(()) => out,
                    Err((s, d)) => out.fail(s, d),
                }
            }
            (Err(_), Err(_)) => out.class("rejected"),
            (Ok(h), Err(why)) => out.fail(sig("accepted-malformed"), format!("{why}, but parsed as {:?}\n{text}", model_of(&h))),
            (Err(e), Ok(_)) => out.fail(sig("valid-file-rejected"), format!("{e:?}\n--- text ---\n{text}")),
        }
    }
}

/// The same through the htoh / htoz / ztoh binaries.
pub struct Binaries;

impl Prop for Binaries {
    type Case = Case;
    fn name(&self) -> &'static str {
        "binaries"
    }
    fn max_shrink_iters(&self) -> u32 {
        300
    }
    fn tape_len(&self) -> usize {
        300
    }
    fn cases(&self, tier: Tier) -> u64 {
        tier.pick(500, 30_000)
    }
    fn generate(&self, g: &mut Gen) -> Case {
        let mut c = gen_case(g);
        // keep to what the API path accepts: the binaries are judged on conversions
        c.lines.retain(|l| matches!(l, Line::Map { tail, .. } if !tail.contains('#')));
        for l in &mut c.lines {
            if let Line::Map { tail, .. } = l {
                tail.clear();
            }
        }
        c
    }
    fn check(&self, c: &Case) -> Outcome {
        use super::c13::run_filter;
        let text = c.text();
        let mut out = Outcome::pass(has_conflict(c) || c.lines.len() > 1);
        let Ok(m) = ref_parse(c) else {
            // faulty files: every tool must fail
            for bin in [HTOH, HTOZ] {
                match run_filter(bin, &[], &text) {
                    Ok((false, _)) => {}
                    Ok((true, o)) => return out.fail("binary-accepts-malformed", format!("{bin} printed\n{o}")),
                    Err(e) => return out.fail("harness-cannot-run-binary", e),
                }
            }
            return out.class("rejected");
        };
        let parse_hosts = |s: &str| Hosts::deserialise(s).ok().map(|h| model_of(&h));
        match run_filter(HTOH, &[], &text) {
            Ok((true, o)) if parse_hosts(&o) == Some(m.clone()) => {}
            Ok((ok, o)) => return out.fail("htoh-changes-meaning", format!("exit ok={ok}\n{o}")),
            Err(e) => return out.fail("harness-cannot-run-binary", e),
        }
        let ztext = match run_filter(HTOZ, &[], &text) {
            Ok((true, o)) => o,
            Ok((false, _)) => return out.fail("htoz-fails", text),
            Err(e) => return out.fail("harness-cannot-run-binary", e),
        };
        match Zone::deserialise(&ztext) {
            Ok(z) => match Hosts::try_from(z) {
                Ok(h) if model_of(&h) == m => {}
                _ => return out.fail("htoz-changes-meaning", ztext),
            },
            Err(e) => return out.fail("htoz-output-rejected", format!("{e:?}\n{ztext}")),
        }
        for args in [&[][..], &["--strict"][..]] {
            match run_filter(ZTOH, args, &ztext) {
                Ok((true, o)) if parse_hosts(&o) == Some(m.clone()) => {}
                Ok((ok, o)) => return out.fail("ztoh-changes-meaning", format!("exit ok={ok}\n{o}")),
                Err(e) => return out.fail("harness-cannot-run-binary", e),
            }
        }
        out.class("converted")
    }
}

/// Raw text (fuzz artifacts, corpus files): whatever parses converts losslessly.
#[derive(Debug, Clone, PartialEq, Eq, Hash, Serialize, Deserialize)]
pub struct RawText {
    pub text: String,
}

pub struct Raw;

impl Prop for Raw {
    type Case = RawText;
    fn name(&self) -> &'static str {
        "raw-text"
    }
    fn tape_len(&self) -> usize {
        300
    }
    fn cases(&self, tier: Tier) -> u64 {
        tier.pick(20_000, 500_000)
    }
    fn generate(&self, g: &mut Gen) -> RawText {
        // a valid file with a few characters damaged
        let mut chars: Vec<char> = gen_case(g).text().chars().collect();
        for _ in 0..g.below(3) {
            if chars.is_empty() {
                break;
            }
            let i = g.below(chars.len());
            match g.below(3) {
                0 => {
                    chars.remove(i);
                }
                1 => chars.insert(i, g.pick(&['#', ' ', '.', ':', '%', '\t', 'x', '1'])),
                _ => chars[i] = g.pick(&['#', ' ', '.', ':', '%', '0', 'G']),
            }
        }
        RawText { text: chars.into_iter().collect() }
    }
    fn check(&self, c: &RawText) -> Outcome {
        match Hosts::deserialise(&c.text) {
            Err(_) => Outcome::pass(false).class("rejected"),
            Ok(h) => {
                let out = Outcome::pass(!h.v4.is_empty() || !h.v6.is_empty()).class("parsed");
                match check_conversions(&h) {
                    Ok(()) => out,
                    Err((s, d)) => out.fail(s, d),
                }
            }
        }
    }
}

pub fn classify_text(b: &[u8]) -> Option<(String, String, &'static str, serde_json::Value)> {
    let text = std::str::from_utf8(b).ok()?;
    let h = Hosts::deserialise(text).ok()?;
    match check_conversions(&h) {
        Ok(()) => None,
        Err((s, d)) => Some((s, d, "raw-text", serde_json::json!({ "text": text }))),
    }
}

pub fn def() -> PropertyDef {
    PropertyDef {
        id: "C14",
        level: "exploration",
        rule: "files: 0..10 lines, each a mapping line (IPv4 dotted quad (small pool or any four octets) or IPv6 in compressed, full, upper-case, zero-padded, embedded-v4, eight-arbitrary-group or long compressed form; 1..4 names of 1..4 labels, mixed case, optional trailing dot; arbitrary blanks/tabs before, between and after; optionally a comment after a blank or glued to the last name, with non-ASCII text), a blank line, a comment line, an address-only line (optionally with comment) or a %iface line; names come from a small pool so duplicate and conflicting lines are common; 1 file in 6 has one malformed address or name on a mapping line. Oracle: fold the lines in order into (name -> v4, name -> v6); Hosts::deserialise must give exactly that, or fail iff the file has a fault; then serialise/deserialise identity, Zone::from has exactly one A/AAAA record with TTL 5 per mapping in the non-authoritative root zone and resolves each name, TryFrom and from_zone_lossy give the hosts back. binaries: htoh, htoz, ztoh (and ztoh --strict) on generated files. Non-trivial = a comment glued to a field or non-ASCII comment text, or conflicting lines (files); more than one line (binaries). Distinct by hash of the case.",
        assumptions: vec![
            "an address-only line with a malformed address is unspecified: not generated",
            "CR before LF counts as a blank",
        ],
        parts: vec![
            Box::new(crate::fuzzrun::CorpusPart { name: "corpus", target: "hosts_roundtrip", classify: classify_text }),
            Box::new(crate::fuzzrun::FuzzPart { name: "fuzz-hosts_roundtrip", target: "hosts_roundtrip", runs_per_job: 500_000, jobs: 8, max_len: 1_024, classify: classify_text }),
            Box::new(Files),
            Box::new(Raw),
            Box::new(Binaries),
        ],
        budget_s: |t| t.pick(900, 10_800),
        needs_repo_bins: true,
    }
}

//! C03 — wire decoder is crash-free, bounded and accepts exactly well-formed
//! messages.

use dns_types::protocol::types::Message;
use serde::{Deserialize, Serialize};

use crate::engine::{catch, Outcome, Prop, PropertyDef, Tier};
use crate::gen::Gen;
use crate::rwire::{self, WMsg};
use crate::util::hex;
use crate::wiregen::*;

/// The oracle for one input.  `Err((signature, detail))` on a violation.
pub fn judge(bytes: &[u8]) -> Result<bool, (String, String)> {
    let got = match catch(|| Message::from_octets(bytes)) {
        Ok(r) => r,
        Err(p) => return Err(("decoder-panic".into(), format!("{p} on {}", short(bytes)))),
    };
    let want = rwire::decode(bytes);
    // ID rule
    if bytes.len() >= 2 {
        let id = u16::from_be_bytes([bytes[0], bytes[1]]);
        match &got {
            Ok(m) if m.header.id != id => {
                return Err(("id-not-preserved".into(), format!("decoded id {} for {}", m.header.id, short(bytes))))
            }
            Err(e) if e.id() != Some(id) => {
                return Err(("error-without-id".into(), format!("{e:?} carries {:?}, sender id {id}: {}", e.id(), short(bytes))))
            }
            _ => {}
        }
    } else {
        match &got {
            Ok(_) => return Err(("accepted-short".into(), format!("accepted {} bytes", bytes.len()))),
            Err(e) if e.id().is_some() => {
                return Err(("id-from-nowhere".into(), format!("{e:?} for {} bytes", bytes.len())))
            }
            _ => {}
        }
    }
    match (&got, &want) {
        (Ok(m), Ok(w)) => {
            let g = rwire::from_impl(m);
            if g != *w {
                return Err((
                    "decodes-differently".into(),
                    format!("impl {:?} vs reference {:?} for {}", g, w, short(bytes)),
                ));
            }
            // every decoded name is well-formed
            for q in &m.questions {
                if let Err(e) = crate::util::wf_domain(&q.name) {
                    return Err(("ill-formed-name".into(), e));
                }
            }
            Ok(true)
        }
        (Err(_), Err(_)) => Ok(false),
        (Ok(_), Err(e)) => Err((
            "accepts-malformed".into(),
            format!("reference rejects with {e:?}, decoder accepts: {}", short(bytes)),
        )),
        (Err(e), Ok(_)) => Err((
            "rejects-wellformed".into(),
            format!("decoder rejects with {e:?}, reference accepts: {}", short(bytes)),
        )),
    }
}

fn short(b: &[u8]) -> String {
    if b.len() <= 700 {
        format!("[{} bytes] {}", b.len(), hex(b))
    } else {
        format!("[{} bytes] {}…", b.len(), hex(&b[..200]))
    }
}

// -------------------------------------------------------------------------

#[derive(Debug, Clone, PartialEq, Eq, Hash, Serialize, Deserialize)]
pub struct MutCase {
    pub msg: WMsg,
    #[serde(with = "crate::util::hexbytes")]
    pub compression: Vec<u8>,
}

/// Valid messages and every single-byte mutation and truncation of them.
pub struct Mutants;

pub const MUT_VALUES: [u8; 5] = [0x00, 0x3f, 0x40, 0xc0, 0xff];

impl Prop for Mutants {
    type Case = MutCase;
    fn name(&self) -> &'static str {
        "mutants"
    }
    fn tape_len(&self) -> usize {
        160
    }
    fn cases(&self, tier: Tier) -> u64 {
        tier.pick(1_200, 30_000)
    }
    fn generate(&self, g: &mut Gen) -> MutCase {
        let msg = gen_wmsg(g, &MsgOpts::small());
        let compression = g.bytes(24).into_iter().map(|b| if b < 96 { 0 } else { b }).collect();
        MutCase { msg, compression }
    }
    fn check(&self, c: &MutCase) -> Outcome {
        let enc = rwire::encode_with(&c.msg, &mut ByteChooser { bytes: &c.compression, pos: 0 });
        let base = enc.out;
        let mut out = Outcome::pass(true)
            .class(if enc.pointers.is_empty() { "base:no-pointers" } else { "base:pointers" });
        let mut inputs = 0u64;
        let mut accepted = 0u64;
        let mut run = |b: &[u8], out: &mut Outcome| -> bool {
            inputs += 1;
            match judge(b) {
                Ok(true) => {
                    accepted += 1;
                    true
                }
                Ok(false) => true,
                Err((s, d)) => {
                    *out = std::mem::replace(out, Outcome::pass(true)).fail(s, d);
                    false
                }
            }
        };
        // the unmutated message must be accepted and read back as generated
        match (catch(|| Message::from_octets(&base)), rwire::decode(&base)) {
            (Ok(Ok(m)), Ok(w)) => {
                if rwire::from_impl(&m) != canonical(&c.msg) || w != canonical(&c.msg) {
                    return out.fail("valid-message-misread", format!("{:?} read as {:?}", c.msg, rwire::from_impl(&m)));
                }
            }
            (a, b) => {
                return out.fail("valid-message-rejected", format!("impl {:?} / reference {:?} on {}", a.map(|r| r.map(|_| ())), b.map(|_| ()), short(&base)));
            }
        }
        // long bases: mutate the first 300 and the last 100 octets only (keeps
        // the case cost bounded; the tail holds the last records)
        let offsets: Vec<usize> = if base.len() > 400 {
            out.classes.push("base:long".into());
            (0..300).chain(base.len() - 100..base.len()).collect()
        } else {
            (0..base.len()).collect()
        };
        let mut buf = base.clone();
        'outer: for i in offsets {
            let orig = buf[i];
            for v in [orig.wrapping_add(1), orig.wrapping_sub(1)].into_iter().chain(MUT_VALUES) {
                if v == orig {
                    continue;
                }
                buf[i] = v;
                if !run(&buf, &mut out) {
                    break 'outer;
                }
            }
            buf[i] = orig;
        }
        if out.failure.is_none() {
            for n in 0..base.len() {
                if !run(&base[..n], &mut out) {
                    break;
                }
            }
        }
        out.counts.push(("inputs", inputs));
        out.counts.push(("inputs-accepted", accepted));
        out
    }
}

// -------------------------------------------------------------------------

pub struct Constructions;

impl Prop for Constructions {
    type Case = Construction;
    fn name(&self) -> &'static str {
        "constructions"
    }
    fn cases(&self, _tier: Tier) -> u64 {
        0
    }
    fn generate(&self, _g: &mut Gen) -> Construction {
        Construction::SelfPointer
    }
    fn enumerate(&self, _tier: Tier, emit: &mut dyn FnMut(Construction)) {
        for c in Construction::all() {
            emit(c);
        }
    }
    fn exhaustive(&self, _tier: Tier) -> bool {
        false
    }
    fn check(&self, c: &Construction) -> Outcome {
        let b = c.bytes();
        let out = Outcome::pass(true).class(format!("construction:{}", format!("{c:?}").split(|ch: char| !ch.is_alphanumeric()).next().unwrap_or("")));
        match judge(&b) {
            Ok(acc) => out.class(if acc { "accepted" } else { "rejected" }).count("inputs", 1),
            Err((s, d)) => out.fail(s, d),
        }
    }
}

// -------------------------------------------------------------------------

#[derive(Debug, Clone, PartialEq, Eq, Hash, Serialize, Deserialize)]
pub struct RawCase {
    #[serde(with = "crate::util::hexbytes")]
    pub bytes: Vec<u8>,
}

/// Random bytes, and valid headers followed by random bytes.
pub struct RandomBytes;

impl Prop for RandomBytes {
    type Case = RawCase;
    fn name(&self) -> &'static str {
        "random"
    }
    fn tape_len(&self) -> usize {
        200
    }
    fn cases(&self, tier: Tier) -> u64 {
        tier.pick(100_000, 4_000_000)
    }
    fn generate(&self, g: &mut Gen) -> RawCase {
        let mode = g.weighted(&[3, 4, 1]);
        let n = if mode == 2 { g.range(600, 3000) } else { g.range(0, 600) };
        let mut bytes = g.bytes(n.min(700));
        while bytes.len() < n {
            let k = bytes.len();
            bytes.push((k as u8).wrapping_mul(31) ^ bytes[k % 97]);
        }
        if mode >= 1 && bytes.len() >= 12 {
            // plausible counts so that parsing gets past the header
            for i in [4, 6, 8, 10] {
                bytes[i] = 0;
                bytes[i + 1] = g.below(3) as u8;
            }
            // pointer-ish and label-ish bytes are frequent
            for i in 12..bytes.len() {
                if bytes[i] % 5 == 0 {
                    bytes[i] = [0, 1, 2, 3, 0xc0, 0xc0, 12, 63, 64][bytes[i] as usize % 9];
                }
            }
        }
        RawCase { bytes }
    }
    fn check(&self, c: &RawCase) -> Outcome {
        let past_header = c.bytes.len() > 12;
        match judge(&c.bytes) {
            Ok(acc) => Outcome::pass(acc)
                .class(if acc { "accepted" } else { "rejected" })
                .class(if past_header { "len>12" } else { "len<=12" })
                .count("inputs", 1),
            Err((s, d)) => Outcome::pass(false).fail(s, d),
        }
    }
}

/// Fuzz artifacts and corpus files become `random` cases.
pub fn classify_bytes(b: &[u8]) -> Option<(String, String, &'static str, serde_json::Value)> {
    match judge(b) {
        Ok(_) => None,
        Err((s, d)) => Some((s, d, "random", serde_json::json!({ "bytes": hex(b) }))),
    }
}

pub fn def() -> PropertyDef {
    PropertyDef {
        id: "C03",
        level: "exploration",
        rule: "mutants: a valid message (all record types, unknown types/classes, names from a shared pool, 63-octet labels, 255-octet names) encoded by the reference encoder with random compression choices (pointers to any earlier suffix); the check then feeds the decoder the base message, every single-byte mutation (each offset, for messages over 400 octets the first 300 and the last 100 offsets, x {+1,-1,0x00,0x3f,0x40,0xc0,0xff}) and every truncation, and compares accept/reject, all decoded fields and the ID rule with R-WIRE (counter 'inputs' = byte strings judged). constructions: the enumerated adversarial inputs (self/forward pointers, cycles, pointers into the header, reserved label types, label and name length boundaries in-line and through pointers, huge counts, RDLENGTH +-1/2 on every type, backward pointer chains up to 8180 hops incl. a 64 KB message with 3000 names ending in the maximal chain, trailing bytes, header prefixes). random: random bytes of length 0..3000, mostly with plausible counts. All run on a 2 MiB thread in a child process (stack overflow = crash = violation). A case is non-trivial if it is a mutant family of a valid message, a construction, or random bytes which the decoder accepts; distinct by hash of the case.",
        assumptions: vec![
            "R-WIRE policy: trailing bytes ignored; a pointer must target an offset before the start of the name (sub)sequence being read; Z bits ignored",
            "release profile, repo toolchain; stack bound checked on a 2 MiB thread with a shallow call stack",
        ],
        parts: vec![
            Box::new(Constructions),
            Box::new(crate::fuzzrun::CorpusPart { name: "corpus", target: "wire_diff", classify: classify_bytes }),
            Box::new(crate::fuzzrun::FuzzPart { name: "fuzz-wire_diff", target: "wire_diff", runs_per_job: 1_000_000, jobs: 8, max_len: 65_535, classify: classify_bytes }),
            Box::new(Mutants),
            Box::new(RandomBytes),
        ],
        budget_s: |t| t.pick(900, 10_800),
        needs_repo_bins: false,
    }
}

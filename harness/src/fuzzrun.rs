//! Bounded libFuzzer campaigns as one more part of a property (thorough
//! tier): the targets in /verif/fuzz carry the same oracles as the proptest
//! parts; a crash artifact is turned into an ordinary replay case.

use std::path::{Path, PathBuf};
use std::process::Command;

use serde::{Deserialize, Serialize};
use serde_json::Value;

use crate::engine::Outcome;

pub const FUZZ_BIN_DIR: &str = "/verif/target/fuzz/x86_64-unknown-linux-gnu/release";
pub const SEED_DIR: &str = "/verif/fuzz/seeds";

#[derive(Debug, Clone, PartialEq, Eq, Hash, Serialize, Deserialize)]
pub struct Campaign {
    pub target: String,
    pub runs_per_job: u64,
    pub jobs: u32,
    pub max_len: u32,
    pub seed: u32,
}

pub struct CampaignResult {
    pub executions: u64,
    pub crash_inputs: Vec<Vec<u8>>,
    pub note: String,
}

pub fn run_campaign(c: &Campaign) -> Result<CampaignResult, String> {
    let bin = Path::new(FUZZ_BIN_DIR).join(&c.target);
    if !bin.exists() {
        return Err(format!("fuzz target {} not built", bin.display()));
    }
    let work = PathBuf::from(format!("/verif/target/tmp/fuzz-{}-{}", c.target, std::process::id()));
    let _ = std::fs::remove_dir_all(&work);
    let corpus = work.join("corpus");
    let artifacts = work.join("artifacts");
    std::fs::create_dir_all(&corpus).map_err(|e| e.to_string())?;
    std::fs::create_dir_all(&artifacts).map_err(|e| e.to_string())?;
    let seeds = Path::new(SEED_DIR).join(&c.target);
    let mut cmd = Command::new(&bin);
    cmd.current_dir(&work)
        .arg(format!("-runs={}", c.runs_per_job))
        .arg(format!("-seed={}", c.seed.max(1)))
        .arg(format!("-max_len={}", c.max_len))
        .arg("-len_control=0")
        .arg("-print_final_stats=1")
        .arg("-rss_limit_mb=4096")
        .arg("-timeout=60")
        .arg(format!("-artifact_prefix={}/", artifacts.display()))
        .arg(format!("-jobs={}", c.jobs))
        .arg(format!("-workers={}", c.jobs))
        .arg(&corpus);
    if seeds.is_dir() {
        cmd.arg(&seeds);
    }
    let out = cmd.output().map_err(|e| e.to_string())?;
    // per-job logs: fuzz-<n>.log in the working directory
    let mut executions = 0u64;
    for j in 0..c.jobs {
        if let Ok(log) = std::fs::read_to_string(work.join(format!("fuzz-{j}.log"))) {
            for line in log.lines() {
                if let Some(n) = line.strip_prefix("stat::number_of_executed_units:") {
                    executions += n.trim().parse::<u64>().unwrap_or(0);
                }
            }
        }
    }
    let mut crash_inputs = Vec::new();
    if let Ok(rd) = std::fs::read_dir(&artifacts) {
        let mut files: Vec<PathBuf> = rd.filter_map(|e| e.ok().map(|e| e.path())).collect();
        files.sort();
        for f in files {
            let name = f.file_name().and_then(|n| n.to_str()).unwrap_or("").to_string();
            if name.starts_with("crash-") || name.starts_with("timeout-") || name.starts_with("oom-") {
                if let Ok(b) = std::fs::read(&f) {
                    crash_inputs.push(b);
                }
            }
        }
    }
    let note = format!("exit={:?}", out.status.code());
    let _ = std::fs::remove_dir_all(&work);
    Ok(CampaignResult {
        executions,
        crash_inputs,
        note,
    })
}

/// Standard handling: run, count, and turn the first crashing input into a
/// failure through `classify` (which re-runs the in-process oracle and names
/// the part + case for the replay file).
pub fn campaign_outcome(
    c: &Campaign,
    classify: &dyn Fn(&[u8]) -> Option<(String, String, &'static str, Value)>,
) -> Outcome {
    let mut out = Outcome::pass(true).class(format!("fuzz:{}", c.target));
    match run_campaign(c) {
        Err(e) => out.class("fuzz-not-run").count("fuzz-campaigns-skipped", 1).class(e),
        Ok(r) => {
            out.counts.push(("fuzz-executions", r.executions));
            for input in &r.crash_inputs {
                if let Some((sig, detail, part, case)) = classify(input) {
                    return out.fail_with_replay(sig, detail, part, case);
                }
            }
            if !r.crash_inputs.is_empty() {
                // the target stopped but the in-process oracle accepts the
                // input: a target-only failure (timeout / OOM / flaky)
                out = out.class("fuzz-artifact-not-reproduced");
            }
            out
        }
    }
}

// --------------------------------------------------------------------------
// the two generic parts

use crate::engine::{Prop, Tier};
use crate::gen::Gen;

pub type Classify = fn(&[u8]) -> Option<(String, String, &'static str, Value)>;

/// Thorough tier only: one bounded libFuzzer campaign.
pub struct FuzzPart {
    pub name: &'static str,
    pub target: &'static str,
    pub runs_per_job: u64,
    pub jobs: u32,
    pub max_len: u32,
    pub classify: Classify,
}

impl Prop for FuzzPart {
    type Case = Campaign;
    fn name(&self) -> &'static str {
        self.name
    }
    fn case_timeout_s(&self) -> u64 {
        // a whole campaign is one case
        7_200
    }
    fn cases(&self, _tier: Tier) -> u64 {
        0
    }
    fn generate(&self, _g: &mut Gen) -> Campaign {
        unreachable!("campaigns are enumerated")
    }
    fn enumerate(&self, tier: Tier, emit: &mut dyn FnMut(Campaign)) {
        if tier != Tier::Thorough {
            return;
        }
        let seed: u32 = std::env::var("VERIF_SEED").ok().and_then(|s| s.parse::<u64>().ok()).unwrap_or(1) as u32;
        emit(Campaign {
            target: self.target.to_string(),
            runs_per_job: self.runs_per_job,
            jobs: self.jobs,
            max_len: self.max_len,
            seed,
        });
    }
    fn check(&self, c: &Campaign) -> Outcome {
        campaign_outcome(c, &|b| (self.classify)(b))
    }
}

/// Both tiers: every file of the committed seed corpus through the
/// in-process oracle (seconds).
#[derive(Debug, Clone, PartialEq, Eq, Hash, Serialize, Deserialize)]
pub struct CorpusFile {
    pub target: String,
    pub file: String,
}

pub struct CorpusPart {
    pub name: &'static str,
    pub target: &'static str,
    pub classify: Classify,
}

impl Prop for CorpusPart {
    type Case = CorpusFile;
    fn name(&self) -> &'static str {
        self.name
    }
    fn cases(&self, _tier: Tier) -> u64 {
        0
    }
    fn generate(&self, _g: &mut Gen) -> CorpusFile {
        unreachable!("corpus files are enumerated")
    }
    fn enumerate(&self, _tier: Tier, emit: &mut dyn FnMut(CorpusFile)) {
        let dir = Path::new(SEED_DIR).join(self.target);
        let mut files: Vec<String> = std::fs::read_dir(&dir)
            .map(|rd| rd.filter_map(|e| e.ok().and_then(|e| e.file_name().into_string().ok())).collect())
            .unwrap_or_default();
        files.sort();
        for file in files {
            emit(CorpusFile { target: self.target.to_string(), file });
        }
    }
    fn check(&self, c: &CorpusFile) -> Outcome {
        let path = Path::new(SEED_DIR).join(&c.target).join(&c.file);
        let out = Outcome::pass(true).class(format!("corpus:{}", c.target));
        match std::fs::read(&path) {
            Err(e) => out.class(format!("unreadable:{e}")),
            Ok(b) => match (self.classify)(&b) {
                None => out,
                Some((sig, detail, part, case)) => out.fail_with_replay(sig, detail, part, case),
            },
        }
    }
}

//! MOCK transport (hook H2): stands in for the network below
//! `query_nameserver_udp/tcp`.  Logs every exchange with virtual time, lets a
//! responder decide what comes back (reply after a delay, silence, transport
//! failure) and records when the resolver abandons an exchange.

use std::net::{IpAddr, SocketAddr};
use std::sync::{Arc, Mutex};
use std::time::Duration;

use dns_resolver::cache::SharedCache;
use dns_resolver::util::nameserver::verif as hook;
use dns_resolver::util::types::{ProtocolMode, ResolutionError, ResolvedRecord};
use dns_types::protocol::types::Question;
use dns_types::zones::types::Zones;

use crate::engine::catch;
use crate::rwire::{self, WMsg, WQ};

#[derive(Debug, Clone)]
pub struct Exchange {
    pub index: usize,
    pub start_ms: u64,
    pub dest: SocketAddr,
    pub tcp: bool,
    pub request: Option<WMsg>,
    pub action: String,
    pub delay_ms: u64,
    /// virtual time at which the reply was handed to the resolver
    pub delivered_ms: Option<u64>,
    /// virtual time at which the resolver dropped the exchange unanswered
    pub abandoned_ms: Option<u64>,
    /// the reply as sent (decoded by the reference decoder), if well-formed
    pub reply: Option<WMsg>,
}

pub enum Action {
    /// reply bytes after `delay_ms` (at least 1 ms of virtual latency is charged)
    Reply { bytes: Vec<u8>, delay_ms: u64, label: String },
    /// never answer
    Silence,
    /// transport-level failure (connection refused, send error)
    Fail,
}

pub struct Ctx<'a> {
    pub index: usize,
    pub now_ms: u64,
    pub dest: SocketAddr,
    pub tcp: bool,
    pub raw: &'a [u8],
    pub request: Option<&'a WMsg>,
}

pub type Responder = Box<dyn FnMut(&Ctx) -> Action + Send>;

pub struct MockInner {
    pub log: Vec<Exchange>,
    pub responder: Responder,
    pub start: Option<tokio::time::Instant>,
}

#[derive(Clone)]
pub struct Mock {
    pub inner: Arc<Mutex<MockInner>>,
}

fn now_ms(start: tokio::time::Instant) -> u64 {
    tokio::time::Instant::now().saturating_duration_since(start).as_millis() as u64
}

struct Guard {
    inner: Arc<Mutex<MockInner>>,
    index: usize,
    done: bool,
}

impl Drop for Guard {
    fn drop(&mut self) {
        if !self.done {
            if let Ok(mut st) = self.inner.lock() {
                if let Some(start) = st.start {
                    let t = now_ms(start);
                    if let Some(e) = st.log.get_mut(self.index) {
                        e.abandoned_ms = Some(t);
                    }
                }
            }
        }
    }
}

impl Mock {
    pub fn new(responder: Responder) -> Self {
        Mock {
            inner: Arc::new(Mutex::new(MockInner {
                log: Vec::new(),
                responder,
                start: None,
            })),
        }
    }

    pub fn log(&self) -> Vec<Exchange> {
        self.inner.lock().unwrap().log.clone()
    }

    pub fn clear_log(&self) {
        self.inner.lock().unwrap().log.clear();
    }

    fn transport(&self) -> hook::Transport {
        let inner = self.inner.clone();
        Arc::new(move |dest: SocketAddr, tcp: bool, raw: Vec<u8>| -> hook::Reply {
            let inner = inner.clone();
            Box::pin(async move {
                let (index, action) = {
                    let mut st = inner.lock().unwrap();
                    let start = *st.start.get_or_insert_with(tokio::time::Instant::now);
                    let t = now_ms(start);
                    let request = rwire::decode(&raw).ok();
                    let index = st.log.len();
                    let action = {
                        let ctx = Ctx { index, now_ms: t, dest, tcp, raw: &raw, request: request.as_ref() };
                        (st.responder)(&ctx)
                    };
                    let (label, delay) = match &action {
                        Action::Reply { label, delay_ms, .. } => (label.clone(), *delay_ms),
                        Action::Silence => ("silence".to_string(), 0),
                        Action::Fail => ("transport-failure".to_string(), 0),
                    };
                    let reply = match &action {
                        Action::Reply { bytes, .. } => rwire::decode(bytes).ok(),
                        _ => None,
                    };
                    st.log.push(Exchange {
                        index,
                        start_ms: t,
                        dest,
                        tcp,
                        request,
                        action: label,
                        delay_ms: delay,
                        delivered_ms: None,
                        abandoned_ms: None,
                        reply,
                    });
                    (index, action)
                };
                let mut guard = Guard { inner: inner.clone(), index, done: false };
                match action {
                    Action::Fail => {
                        // even a failure costs a little virtual time
                        tokio::time::sleep(Duration::from_millis(1)).await;
                        guard.done = true;
                        None
                    }
                    Action::Silence => {
                        std::future::pending::<()>().await;
                        None
                    }
                    Action::Reply { bytes, delay_ms, .. } => {
                        tokio::time::sleep(Duration::from_millis(delay_ms.max(1))).await;
                        {
                            let mut st = inner.lock().unwrap();
                            let t = st.start.map(now_ms).unwrap_or(0);
                            if let Some(e) = st.log.get_mut(index) {
                                e.delivered_ms = Some(t);
                            }
                        }
                        guard.done = true;
                        Some(bytes)
                    }
                }
            })
        })
    }
}

#[derive(Debug, Clone, Copy, PartialEq, Eq)]
pub enum Mode {
    Local,
    Recursive { protocol: ProtocolMode, port: u16 },
    Forwarding { address: SocketAddr },
}

pub struct RunResult {
    pub result: Result<Result<ResolvedRecord, ResolutionError>, String>,
    pub elapsed_ms: u64,
}

/// Run one `dns_resolver::resolve` call on a paused-clock runtime with the
/// mock installed.  A panic is returned as `Err(message)`.
pub fn run_resolve(mock: &Mock, mode: Mode, zones: &Zones, cache: &SharedCache, question: &Question) -> RunResult {
    {
        let mut st = mock.inner.lock().unwrap();
        st.start = None;
    }
    hook::set_transport(Some(mock.transport()));
    let rt = tokio::runtime::Builder::new_current_thread()
        .enable_time()
        .start_paused(true)
        .build()
        .expect("runtime");
    let inner = mock.inner.clone();
    let r = catch(|| {
        rt.block_on(async {
            let t0 = tokio::time::Instant::now();
            {
                inner.lock().unwrap().start = Some(t0);
            }
            let (is_recursive, protocol, port, fwd) = match mode {
                Mode::Local => (false, ProtocolMode::OnlyV4, 53, None),
                Mode::Recursive { protocol, port } => (true, protocol, port, None),
                Mode::Forwarding { address } => (true, ProtocolMode::OnlyV4, 53, Some(address)),
            };
            let (_metrics, res) = dns_resolver::resolve(is_recursive, protocol, port, fwd, zones, cache, question).await;
            let elapsed = tokio::time::Instant::now().saturating_duration_since(t0).as_millis() as u64;
            (res, elapsed)
        })
    });
    drop(rt);
    hook::set_transport(None);
    match r {
        Ok((res, elapsed)) => RunResult { result: Ok(res), elapsed_ms: elapsed },
        Err(p) => RunResult { result: Err(p), elapsed_ms: 0 },
    }
}

/// Encode a reply the way a server would for the given transport: over UDP a
/// message longer than 512 octets goes out as a truncated header+question.
pub fn wire_reply(mut m: WMsg, request: &WMsg, tcp: bool) -> Vec<u8> {
    m.id = request.id;
    m.rd = request.rd;
    m.opcode = request.opcode;
    let full = rwire::encode_plain(&m);
    if !tcp && full.len() > 512 {
        let mut t = m.clone();
        t.tc = true;
        t.answers.clear();
        t.authority.clear();
        t.additional.clear();
        return rwire::encode_plain(&t);
    }
    full
}

pub fn question_of(req: Option<&WMsg>) -> Option<WQ> {
    req.and_then(|m| m.questions.first().cloned())
}

pub fn ip_of(a: SocketAddr) -> IpAddr {
    a.ip()
}

//! UNIVERSE: a generated tree of zones below root hints, the behaviour of its
//! authoritative servers (computed per RFC 1034 §4.3.2 through R-ZONE) and the
//! ground truth for any question (computed globally, independent of any
//! iterative resolution algorithm).  DESIGN.md §3 and Appendix C.

use std::collections::{BTreeMap, BTreeSet};
use std::net::{IpAddr, Ipv4Addr, Ipv6Addr};

use serde::{Deserialize, Serialize};

use crate::gen::Gen;
use crate::rwire::{WData, WMsg, WQ, WRR};
use crate::rzone::*;
use crate::util::N;

#[derive(Debug, Clone, PartialEq, Eq, Hash, Serialize, Deserialize)]
pub struct UHost {
    pub name: N,
    pub v4: Vec<[u8; 4]>,
    pub v6: Vec<[u8; 16]>,
}

impl UHost {
    pub fn ips(&self) -> Vec<IpAddr> {
        self.v4
            .iter()
            .map(|a| IpAddr::V4(Ipv4Addr::from(*a)))
            .chain(self.v6.iter().map(|a| IpAddr::V6(Ipv6Addr::from(*a))))
            .collect()
    }
}

#[derive(Debug, Clone, PartialEq, Eq, Hash, Serialize, Deserialize)]
pub struct UZone {
    pub apex: N,
    pub soa: SoaM,
    /// NS host names (same set at the parent's cut and at the apex)
    pub ns: Vec<N>,
    /// data records of the zone (not at or below child apexes)
    pub recs: Vec<ZRec>,
    /// the parent hands out glue for this zone's out-of-bailiwick NS hosts too
    pub glue_for_oob: bool,
    /// servers add the alias target's data when they also serve its zone
    pub chases: bool,
    /// positive answers carry the apex NS set and its addresses as well
    pub extra_sections: bool,
    pub ns_ttl: u32,
    /// which address families the parent's glue for this zone carries:
    /// 0 both, 1 IPv4 only, 2 IPv6 only (a registry holding partial glue)
    #[serde(default)]
    pub glue_families: u8,
}

#[derive(Debug, Clone, PartialEq, Eq, Hash, Serialize, Deserialize)]
pub struct Universe {
    /// zones[0] is the root; parents precede children
    pub zones: Vec<UZone>,
    pub hosts: Vec<UHost>,
    /// split hosts: the box behind this address (text form) does not serve
    /// the zone with this apex, although the host name is one of its NS
    #[serde(default)]
    pub unserved: Vec<(String, N)>,
}

pub struct UniverseOpts {
    pub max_zones: usize,
    pub max_depth: usize,
    pub multi_address_hosts: bool,
    pub wildcards: bool,
    pub aliases: bool,
}

const CHILD_LABELS: [&str; 6] = ["com", "net", "example", "sub", "dev", "corp"];
const DATA_LABELS: [&str; 5] = ["a", "b", "www", "mail", "c"];

impl Universe {
    pub fn zone_index_of(&self, apex: &N) -> Option<usize> {
        self.zones.iter().position(|z| z.apex == *apex)
    }

    /// Deepest zone of the universe enclosing `name`.
    pub fn deepest_zone(&self, name: &N) -> usize {
        let mut best = 0;
        for (i, z) in self.zones.iter().enumerate() {
            if name.is_at_or_below(&z.apex) && z.apex.depth() >= self.zones[best].apex.depth() {
                best = i;
            }
        }
        best
    }

    pub fn children_of(&self, zi: usize) -> Vec<usize> {
        let apex = &self.zones[zi].apex;
        (0..self.zones.len())
            .filter(|j| {
                let c = &self.zones[*j].apex;
                *j != zi && c.is_at_or_below(apex) && self.deepest_parent(*j) == zi
            })
            .collect()
    }

    fn deepest_parent(&self, zi: usize) -> usize {
        let apex = &self.zones[zi].apex;
        let mut best = 0;
        for (i, z) in self.zones.iter().enumerate() {
            if i != zi && apex.is_at_or_below(&z.apex) && apex != &z.apex && z.apex.depth() >= self.zones[best].apex.depth() {
                best = i;
            }
        }
        best
    }

    pub fn host(&self, name: &N) -> Option<&UHost> {
        self.hosts.iter().find(|h| h.name == *name)
    }

    /// Zones served at an address.
    pub fn zones_at(&self, ip: IpAddr) -> Vec<usize> {
        let names: Vec<&N> = self.hosts.iter().filter(|h| h.ips().contains(&ip)).map(|h| &h.name).collect();
        let ip_text = ip.to_string();
        (0..self.zones.len())
            .filter(|i| self.zones[*i].ns.iter().any(|n| names.contains(&n)))
            .filter(|i| !self.unserved.iter().any(|(a, apex)| *a == ip_text && *apex == self.zones[*i].apex))
            .collect()
    }

    fn addr_records(&self, h: &UHost, ttl: u32) -> Vec<ZRec> {
        let mut v = Vec::new();
        for a in &h.v4 {
            v.push(ZRec { owner: h.name.clone(), wild: false, rtype: T_A, data: WData::A(*a), ttl });
        }
        for a in &h.v6 {
            v.push(ZRec { owner: h.name.clone(), wild: false, rtype: T_AAAA, data: WData::Aaaa(*a), ttl });
        }
        v
    }

    /// The complete authoritative content of a zone as its servers see it:
    /// data, apex NS, addresses of hosts that live in the zone, and the NS
    /// sets of the child cuts.
    pub fn zone_model(&self, zi: usize) -> ZoneModel {
        let z = &self.zones[zi];
        let mut recs = z.recs.clone();
        for n in &z.ns {
            recs.push(ZRec { owner: z.apex.clone(), wild: false, rtype: T_NS, data: WData::Name(n.clone()), ttl: z.ns_ttl });
        }
        for h in &self.hosts {
            if self.deepest_zone(&h.name) == zi {
                recs.extend(self.addr_records(h, z.ns_ttl));
            }
        }
        for c in self.children_of(zi) {
            let cz = &self.zones[c];
            for n in &cz.ns {
                recs.push(ZRec { owner: cz.apex.clone(), wild: false, rtype: T_NS, data: WData::Name(n.clone()), ttl: cz.ns_ttl });
            }
        }
        ZoneModel { apex: z.apex.clone(), soa: Some(z.soa.clone()), recs }
    }

    /// Glue a parent adds to a referral to child `c`.
    pub fn glue_for(&self, parent: usize, c: usize) -> Vec<WRR> {
        let cz = &self.zones[c];
        let mut out = Vec::new();
        for n in &cz.ns {
            let Some(h) = self.host(n) else { continue };
            let in_child = n.is_at_or_below(&cz.apex);
            let parent_authoritative = self.deepest_zone(n) == parent;
            if in_child || parent_authoritative || cz.glue_for_oob {
                let ttl = self.zones[self.deepest_zone(n)].ns_ttl;
                let zm_ttl = self.zones[self.deepest_zone(n)].soa.minimum.max(ttl);
                for r in self.addr_records(h, zm_ttl) {
                    if (cz.glue_families == 1 && r.rtype != T_A) || (cz.glue_families == 2 && r.rtype != T_AAAA) {
                        continue;
                    }
                    out.push(WRR { name: r.owner, rtype: r.rtype, rclass: 1, ttl: r.ttl, data: r.data });
                }
            }
        }
        out
    }

    /// What the server at `ip` answers (header flags, sections); the mock
    /// fills in ID and question.  `None` = the address serves nothing.
    pub fn serve(&self, ip: IpAddr, q: &WQ) -> Option<WMsg> {
        let served = self.zones_at(ip);
        if served.is_empty() {
            return None;
        }
        let mut resp = WMsg {
            id: 0,
            qr: true,
            opcode: 0,
            aa: false,
            tc: false,
            rd: false,
            ra: false,
            rcode: 0,
            questions: vec![q.clone()],
            answers: vec![],
            authority: vec![],
            additional: vec![],
        };
        if q.qclass != 1 && q.qclass != 255 {
            resp.rcode = 5;
            return Some(resp);
        }
        let name = q.name.lower();
        // The deepest zone served here that encloses the name.  (A referral
        // out of it always leads to a zone this address does not serve:
        // otherwise that deeper zone would have been chosen.)
        let zi = served
            .iter()
            .copied()
            .filter(|i| name.is_at_or_below(&self.zones[*i].apex))
            .max_by_key(|i| self.zones[*i].apex.depth());
        let Some(zi) = zi else {
            resp.rcode = 5; // REFUSED: not our zone
            return Some(resp);
        };
        let zm = self.zone_model(zi);
        let eff = zm.effective();
        Some(self.finish_in_zone(resp, zi, &zm, &eff, name, q, &served, 0))
    }

    /// Answer from zone `zi` (which is the deepest served zone for `name` and
    /// does not refer it onwards), chasing aliases when configured.
    #[allow(clippy::too_many_arguments)]
    fn finish_in_zone(&self, mut resp: WMsg, zi: usize, zm: &ZoneModel, eff: &[ZRec], name: N, q: &WQ, served: &[usize], depth: usize) -> WMsg {
        let z = &self.zones[zi];
        let row = |r: &RRow| WRR { name: r.0.clone(), rtype: r.1, rclass: 1, ttl: r.3, data: r.2.clone() };
        let soa = || z.soa.rr(&z.apex);
        // servers that fill the extra sections send negative answers in the
        // RFC 2308 "type 1" shape: the zone's own NS set next to the SOA
        let negative_ns = || -> Vec<WRR> {
            if !z.extra_sections {
                return vec![];
            }
            z.ns.iter().map(|n| WRR { name: z.apex.clone(), rtype: T_NS, rclass: 1, ttl: z.ns_ttl.max(z.soa.minimum), data: WData::Name(n.clone()) }).collect()
        };
        match zm.lookup_opts(eff, &name, q.qtype, false) {
            ZR::Referral(ns) => {
                // reached while chasing an alias: hand out the referral only
                // if nothing has been answered yet
                if resp.answers.is_empty() {
                    let c = self.zone_index_of(&ns[0].0).expect("cut");
                    resp.authority = ns.iter().map(row).collect();
                    resp.additional = self.glue_for(zi, c);
                }
                resp
            }
            ZR::Answer(rows) if !rows.is_empty() => {
                resp.aa = true;
                resp.answers.extend(rows.iter().map(row));
                if z.extra_sections {
                    for n in &z.ns {
                        resp.authority.push(WRR { name: z.apex.clone(), rtype: T_NS, rclass: 1, ttl: z.ns_ttl.max(z.soa.minimum), data: WData::Name(n.clone()) });
                    }
                }
                resp
            }
            ZR::Answer(_) => {
                resp.aa = true;
                resp.authority = vec![soa()];
                resp.authority.extend(negative_ns());
                resp
            }
            ZR::NameError => {
                resp.aa = true;
                // RCODE describes the last name of the chain, as real servers do
                resp.rcode = 3;
                resp.authority = vec![soa()];
                resp.authority.extend(negative_ns());
                resp
            }
            ZR::Alias(c) => {
                resp.aa = true;
                resp.answers.push(row(&c));
                let WData::Name(target) = &c.2 else { return resp };
                if !z.chases || depth >= 8 {
                    return resp;
                }
                // chase only into zones this server serves
                let t = target.lower();
                let tz = served
                    .iter()
                    .copied()
                    .filter(|i| t.is_at_or_below(&self.zones[*i].apex))
                    .max_by_key(|i| self.zones[*i].apex.depth());
                match tz {
                    Some(tzi) => {
                        let zm2 = self.zone_model(tzi);
                        let eff2 = zm2.effective();
                        // a referral out of the target zone ends the chase
                        if let ZR::Referral(_) = zm2.lookup_opts(&eff2, &t, q.qtype, false) {
                            return resp;
                        }
                        self.finish_in_zone(resp, tzi, &zm2, &eff2, t, q, served, depth + 1)
                    }
                    None => resp,
                }
            }
        }
    }

    /// Ground truth: (alias chain, final record set, SOA of the zone where
    /// the chain ends if the final set is empty, name error at the end?).
    pub fn truth(&self, q: &WQ) -> Truth {
        let mut chain = Vec::new();
        let mut name = q.name.lower();
        let mut seen = BTreeSet::new();
        loop {
            let zi = self.deepest_zone(&name);
            let zm = self.zone_model(zi);
            let eff = zm.effective();
            let z = &self.zones[zi];
            match zm.lookup_opts(&eff, &name, q.qtype, true) {
                ZR::Answer(rows) => {
                    let soa = if rows.is_empty() { Some(z.soa.rr(&z.apex)) } else { None };
                    return Truth { chain, finals: rows, soa, name_error: false, looped: false };
                }
                ZR::NameError => return Truth { chain, finals: vec![], soa: Some(z.soa.rr(&z.apex)), name_error: true, looped: false },
                ZR::Alias(c) => {
                    let WData::Name(t) = c.2.clone() else { unreachable!() };
                    seen.insert(name.clone());
                    chain.push(c);
                    // the alias leads back to a name already visited (or the
                    // chain is absurdly long): no link is listed twice
                    if seen.contains(&t.lower()) || chain.len() > 64 {
                        return Truth { chain, finals: vec![], soa: None, name_error: false, looped: true };
                    }
                    name = t.lower();
                }
                // the deepest zone never refers its own names onwards
                ZR::Referral(_) => return Truth { chain, finals: vec![], soa: None, name_error: false, looped: true },
            }
        }
    }

    /// Root hints as the resolver's local non-authoritative root zone.
    pub fn hints_zone(&self) -> ZoneModel {
        let root = &self.zones[0];
        // hints are exact copies of what the root servers hold (TTL included),
        // so that answering from them is indistinguishable from asking
        let ttl = root.ns_ttl.max(root.soa.minimum);
        let mut recs = Vec::new();
        for n in &root.ns {
            recs.push(ZRec { owner: N::root(), wild: false, rtype: T_NS, data: WData::Name(n.clone()), ttl });
            if let Some(h) = self.host(n) {
                recs.extend(self.addr_records(h, ttl));
            }
        }
        ZoneModel { apex: N::root(), soa: None, recs }
    }

    /// All names that own something or lie on the way, plus some that do not exist.
    pub fn question_names(&self) -> Vec<N> {
        let mut s: BTreeSet<N> = BTreeSet::new();
        for (i, z) in self.zones.iter().enumerate() {
            let zm = self.zone_model(i);
            for n in interesting_names(&zm) {
                if n.depth() <= z.apex.depth() + 2 {
                    s.insert(n);
                }
            }
        }
        s.into_iter().collect()
    }
}

#[derive(Debug, Clone, PartialEq, Eq)]
pub struct Truth {
    pub chain: Vec<RRow>,
    pub finals: Vec<RRow>,
    pub soa: Option<WRR>,
    pub name_error: bool,
    pub looped: bool,
}

// --------------------------------------------------------------------------
// generation

fn fresh_v4(counter: &mut u32) -> [u8; 4] {
    *counter += 1;
    [10, (*counter >> 8) as u8, *counter as u8, 53]
}

fn fresh_v6(counter: &mut u32) -> [u8; 16] {
    *counter += 1;
    let mut a = [0u8; 16];
    a[0] = 0xfd;
    a[14] = (*counter >> 8) as u8;
    a[15] = *counter as u8;
    a
}

pub fn gen_universe(g: &mut Gen, o: &UniverseOpts) -> Universe {
    let mut counter = 0u32;
    let mut zones: Vec<UZone> = Vec::new();
    let mut hosts: Vec<UHost> = Vec::new();
    let nzones = g.range(2, o.max_zones);

    let mk_host = |g: &mut Gen, name: N, counter: &mut u32, multi: bool| -> UHost {
        let fam = g.weighted(&[4, 2, 2]); // dual, v4 only, v6 only
        let n4 = if fam == 2 { 0 } else if multi && g.chance(1, 6) { 2 } else { 1 };
        let n6 = if fam == 1 { 0 } else if multi && g.chance(1, 6) { 2 } else { 1 };
        UHost {
            name,
            v4: (0..n4).map(|_| fresh_v4(counter)).collect(),
            v6: (0..n6).map(|_| fresh_v6(counter)).collect(),
        }
    };

    for zi in 0..nzones {
        // apex: root first; then a child of an existing zone
        let apex = if zi == 0 {
            N::root()
        } else {
            let mut tries = 0;
            loop {
                let p = g.below(zones.len());
                let parent = zones[p].apex.clone();
                let mut a = parent.child(g.pick(&CHILD_LABELS).as_bytes());
                if g.chance(1, 8) {
                    a = a.child(g.pick(&CHILD_LABELS).as_bytes()); // an empty non-terminal in between
                }
                tries += 1;
                // not an existing apex, not inside a zone deeper than the chosen
                // parent, and not above an existing zone (parents precede children)
                let taken = zones.iter().any(|z| z.apex == a || (a.is_at_or_below(&z.apex) && z.apex.depth() > parent.depth()) || z.apex.is_at_or_below(&a));
                if (!taken && a.depth() <= o.max_depth) || tries > 20 {
                    if taken || a.depth() > o.max_depth {
                        a = N::parse(&format!("z{zi}."));
                    }
                    break a;
                }
            }
        };
        // nameservers
        let nns = g.range(1, 3);
        let mut ns: Vec<N> = Vec::new();
        for k in 0..nns {
            let in_bailiwick = zi == 0 || g.chance(1, 2);
            if in_bailiwick {
                let name = if zi == 0 { N::parse(&format!("{}.rs.", ["a", "b", "c"][k])) } else { apex.child(format!("ns{}", k + 1).as_bytes()) };
                hosts.push(mk_host(g, name.clone(), &mut counter, o.multi_address_hosts));
                ns.push(name);
            } else {
                // a host in an earlier zone: reuse one or create `nsN.<earlier apex>`
                let earlier: Vec<usize> = (0..zones.len()).filter(|i| !zones[*i].apex.is_at_or_below(&apex)).collect();
                let e = g.pick(&earlier);
                let existing: Vec<N> = hosts.iter().filter(|h| h.name.is_at_or_below(&zones[e].apex) && h.name.depth() == zones[e].apex.depth() + 1).map(|h| h.name.clone()).collect();
                let name = if !existing.is_empty() && g.chance(1, 2) {
                    g.pick(&existing)
                } else {
                    let n = zones[e].apex.child(format!("ns{}", 4 + g.below(3)).as_bytes());
                    if e == 0 {
                        // below the root only under "rs." so that it is not mistaken for a TLD
                        N::parse(&format!("x{}.rs.", g.below(3)))
                    } else {
                        n
                    }
                };
                if !hosts.iter().any(|h| h.name == name) {
                    hosts.push(mk_host(g, name.clone(), &mut counter, o.multi_address_hosts));
                }
                if !ns.contains(&name) {
                    ns.push(name);
                }
            }
        }
        let soa = SoaM {
            mname: ns[0].clone(),
            rname: apex.child(b"hostmaster"),
            serial: zi as u32 + 1,
            refresh: 3600,
            retry: 600,
            expire: 86400,
            minimum: g.pick(&[0u32, 60]),
        };
        zones.push(UZone {
            apex,
            soa,
            ns,
            recs: Vec::new(),
            glue_for_oob: g.chance(1, 3),
            chases: g.bool(),
            extra_sections: g.chance(1, 3),
            ns_ttl: g.pick(&[300u32, 3600, 60]),
            glue_families: 0,
        });
    }
    // the root's own servers live under "rs.", which the root zone holds itself
    let mut u = Universe { zones, hosts, unserved: vec![] };

    // data
    let mut alias_targets: Vec<N> = Vec::new(); // names that may be aliased to (created earlier => acyclic)
    for zi in 0..u.zones.len() {
        let apex = u.zones[zi].apex.clone();
        let child_apexes: Vec<N> = u.children_of(zi).iter().map(|c| u.zones[*c].apex.clone()).collect();
        let host_names: Vec<N> = u.hosts.iter().map(|h| h.name.clone()).collect();
        let n = g.range(0, 6);
        let mut recs: Vec<ZRec> = Vec::new();
        for _ in 0..n {
            let mut owner = apex.child(g.pick(&DATA_LABELS).as_bytes());
            if g.chance(1, 5) {
                owner = owner.child(g.pick(&DATA_LABELS).as_bytes());
            }
            if g.chance(1, 10) {
                owner = apex.clone();
            }
            if child_apexes.iter().any(|c| owner.is_at_or_below(c)) || host_names.contains(&owner) {
                continue;
            }
            let wild = o.wildcards && g.chance(1, 10);
            let ttl = g.pick(&[300u32, 60, 3600, 300]);
            let kind = g.weighted(&[5, 2, 2, 2, if o.aliases { 4 } else { 0 }]);
            let has_cname = recs.iter().any(|r| r.owner == owner && r.wild == wild && r.rtype == T_CNAME);
            let has_other = recs.iter().any(|r| r.owner == owner && r.wild == wild);
            let rec = match kind {
                0 => ZRec { owner: owner.clone(), wild, rtype: T_A, data: WData::A([192, 0, 2, g.below(250) as u8]), ttl },
                1 => ZRec { owner: owner.clone(), wild, rtype: T_AAAA, data: WData::Aaaa({ let mut a = [0u8; 16]; a[0] = 0x20; a[1] = 1; a[15] = g.below(250) as u8; a }), ttl },
                2 => ZRec { owner: owner.clone(), wild, rtype: T_TXT, data: WData::Opaque(format!("t{}", g.below(9)).into_bytes()), ttl },
                3 => ZRec { owner: owner.clone(), wild, rtype: T_MX, data: WData::Mx(10, apex.child(b"mail")), ttl },
                _ => {
                    if has_other || owner == apex {
                        continue; // an alias owns nothing else
                    }
                    let target = match g.weighted(&[4, 2, 1]) {
                        0 if !alias_targets.is_empty() => g.pick(&alias_targets),
                        1 => apex.child(b"nowhere"),
                        _ => N::parse("missing.invalid."),
                    };
                    ZRec { owner: owner.clone(), wild, rtype: T_CNAME, data: WData::Name(target), ttl }
                }
            };
            if has_cname {
                continue;
            }
            // one TTL per RRset (RFC 2181 5.2) and no duplicate records
            let mut rec = rec;
            if let Some(same_set) = recs.iter().find(|r| r.owner == rec.owner && r.wild == rec.wild && r.rtype == rec.rtype) {
                rec.ttl = same_set.ttl;
            }
            if recs.contains(&rec) {
                continue;
            }
            recs.push(rec);
            if !wild {
                alias_targets.push(owner);
            }
        }
        u.zones[zi].recs = recs;
    }
    u
}

//! Choice-tape generator.
//!
//! Every random decision of every generator in this crate is read from a
//! `&[u32]` tape which proptest generates (and shrinks).  Decoding is
//! monotone: a smaller tape value always selects an earlier ("simpler")
//! alternative, and an exhausted tape yields zeros, so proptest's shrinking
//! of the tape (drop elements, move elements towards 0) moves the decoded
//! case towards small cases.  No other source of randomness exists.

pub struct Gen<'a> {
    tape: &'a [u32],
    pos: usize,
}

impl<'a> Gen<'a> {
    pub fn new(tape: &'a [u32]) -> Self {
        Self { tape, pos: 0 }
    }

    pub fn consumed(&self) -> usize {
        self.pos
    }

    pub fn raw(&mut self) -> u32 {
        let v = self.tape.get(self.pos).copied().unwrap_or(0);
        self.pos += 1;
        v
    }

    /// Uniform in `0..n` (n ≥ 1), monotone in the tape value.
    pub fn below(&mut self, n: usize) -> usize {
        if n <= 1 {
            // still consume one entry so that the tape layout is stable
            self.raw();
            return 0;
        }
        ((u64::from(self.raw()) * n as u64) >> 32) as usize
    }

    /// Uniform in `lo..=hi`.
    pub fn range(&mut self, lo: usize, hi: usize) -> usize {
        debug_assert!(lo <= hi);
        lo + self.below(hi - lo + 1)
    }

    pub fn bool(&mut self) -> bool {
        self.raw() >= 0x8000_0000
    }

    /// True with probability `num/den`; a zero tape gives `false`.
    pub fn chance(&mut self, num: u32, den: u32) -> bool {
        let v = (u64::from(self.raw()) * u64::from(den)) >> 32;
        v >= u64::from(den - num)
    }

    pub fn pick<T: Clone>(&mut self, xs: &[T]) -> T {
        xs[self.below(xs.len())].clone()
    }

    pub fn pick_ref<'b, T>(&mut self, xs: &'b [T]) -> &'b T {
        &xs[self.below(xs.len())]
    }

    /// Index chosen with the given weights (earlier = simpler).
    pub fn weighted(&mut self, weights: &[u32]) -> usize {
        let total: u64 = weights.iter().map(|w| u64::from(*w)).sum();
        let mut v = (u64::from(self.raw()) * total) >> 32;
        for (i, w) in weights.iter().enumerate() {
            if v < u64::from(*w) {
                return i;
            }
            v -= u64::from(*w);
        }
        weights.len() - 1
    }

    pub fn u8(&mut self) -> u8 {
        (self.raw() >> 24) as u8
    }

    pub fn u16(&mut self) -> u16 {
        (self.raw() >> 16) as u16
    }

    pub fn u32(&mut self) -> u32 {
        self.raw()
    }

    pub fn bytes(&mut self, n: usize) -> Vec<u8> {
        let mut out = Vec::with_capacity(n);
        while out.len() < n {
            let v = self.raw().to_be_bytes();
            for b in v {
                if out.len() < n {
                    out.push(b);
                }
            }
        }
        out
    }

    /// A vector of `lo..=hi` elements.
    pub fn vec<T>(&mut self, lo: usize, hi: usize, mut f: impl FnMut(&mut Gen<'a>) -> T) -> Vec<T> {
        let n = self.range(lo, hi);
        (0..n).map(|_| f(self)).collect()
    }
}

/// splitmix64, used only to derive per-shard proptest seeds from VERIF_SEED.
pub fn splitmix64(mut x: u64) -> u64 {
    x = x.wrapping_add(0x9E37_79B9_7F4A_7C15);
    let mut z = x;
    z = (z ^ (z >> 30)).wrapping_mul(0xBF58_476D_1CE4_E5B9);
    z = (z ^ (z >> 27)).wrapping_mul(0x94D0_49BB_1331_11EB);
    z ^ (z >> 31)
}

pub fn derive_seed(seed: u64, prop: &str, part: usize, shard: usize) -> u64 {
    let mut h = splitmix64(seed ^ 0xA5A5_5A5A_0F0F_F0F0);
    for b in prop.bytes() {
        h = splitmix64(h ^ u64::from(b));
    }
    h = splitmix64(h ^ (part as u64) << 32 ^ shard as u64);
    h
}

//! Small helpers shared by the property modules.

use bytes::Bytes;
use dns_types::protocol::types::*;
use serde::{Deserialize, Serialize};

/// A name as plain data: its non-root labels as byte strings, leftmost first.
/// `N(vec![])` is the root.
#[derive(Debug, Clone, PartialEq, Eq, Hash, PartialOrd, Ord)]
pub struct N(pub Vec<Vec<u8>>);

// In replay files a name is its escaped dotted text ("a.b\\032c.").
impl Serialize for N {
    fn serialize<S: serde::Serializer>(&self, s: S) -> Result<S::Ok, S::Error> {
        s.serialize_str(&self.to_string())
    }
}

impl<'de> Deserialize<'de> for N {
    fn deserialize<D: serde::Deserializer<'de>>(d: D) -> Result<Self, D::Error> {
        let s = String::deserialize(d)?;
        Ok(N::parse_escaped(&s))
    }
}

impl N {
    pub fn root() -> Self {
        N(Vec::new())
    }
    pub fn parse(s: &str) -> Self {
        // "a.b." or "a.b" or "." - ASCII labels without dots only
        let t = s.trim_end_matches('.');
        if t.is_empty() {
            return N::root();
        }
        N(t.split('.').map(|l| l.as_bytes().to_vec()).collect())
    }
    /// Inverse of `Display`: labels separated by dots, `\\DDD` escapes.
    pub fn parse_escaped(s: &str) -> Self {
        let b = s.as_bytes();
        let mut labels = Vec::new();
        let mut cur = Vec::new();
        let mut i = 0;
        while i < b.len() {
            if b[i] == b'\\' && i + 3 < b.len() + 0 && b[i + 1].is_ascii_digit() {
                let v = (b[i + 1] - b'0') as u32 * 100 + (b[i + 2] - b'0') as u32 * 10 + (b[i + 3] - b'0') as u32;
                cur.push(v as u8);
                i += 4;
            } else if b[i] == b'.' {
                if !cur.is_empty() || i + 1 < b.len() {
                    labels.push(std::mem::take(&mut cur));
                }
                i += 1;
            } else {
                cur.push(b[i]);
                i += 1;
            }
        }
        if !cur.is_empty() {
            labels.push(cur);
        }
        if s == "." {
            return N::root();
        }
        N(labels)
    }
    pub fn depth(&self) -> usize {
        self.0.len()
    }
    pub fn lower(&self) -> N {
        N(self.0.iter().map(|l| l.to_ascii_lowercase()).collect())
    }
    pub fn child(&self, label: &[u8]) -> N {
        let mut v = Vec::with_capacity(self.0.len() + 1);
        v.push(label.to_vec());
        v.extend(self.0.iter().cloned());
        N(v)
    }
    pub fn parent(&self) -> Option<N> {
        if self.0.is_empty() {
            None
        } else {
            Some(N(self.0[1..].to_vec()))
        }
    }
    /// Independent label-wise suffix test (case-insensitive).
    pub fn is_at_or_below(&self, other: &N) -> bool {
        let a = &self.0;
        let b = &other.0;
        if b.len() > a.len() {
            return false;
        }
        let off = a.len() - b.len();
        a[off..]
            .iter()
            .zip(b.iter())
            .all(|(x, y)| x.eq_ignore_ascii_case(y))
    }
    pub fn wire_len(&self) -> usize {
        1 + self.0.iter().map(|l| 1 + l.len()).sum::<usize>()
    }
    /// Dotted text for ASCII, dot-free labels (escapes nothing).
    pub fn dotted(&self) -> String {
        if self.0.is_empty() {
            return ".".to_string();
        }
        let mut s = String::new();
        for l in &self.0 {
            for b in l {
                s.push(*b as char);
            }
            s.push('.');
        }
        s
    }
    /// Convert through `DomainName::from_labels`.
    pub fn to_domain(&self) -> Option<DomainName> {
        let mut labels = Vec::with_capacity(self.0.len() + 1);
        for l in &self.0 {
            labels.push(Label::try_from(&l[..]).ok()?);
        }
        labels.push(Label::new());
        DomainName::from_labels(labels)
    }
    pub fn dom(&self) -> DomainName {
        self.to_domain().expect("valid name")
    }
    pub fn from_domain(d: &DomainName) -> N {
        let mut v = Vec::new();
        for l in &d.labels {
            if !l.is_empty() {
                v.push(l.octets().to_vec());
            }
        }
        N(v)
    }
}

impl std::fmt::Display for N {
    fn fmt(&self, f: &mut std::fmt::Formatter<'_>) -> std::fmt::Result {
        if self.0.is_empty() {
            return write!(f, ".");
        }
        for l in &self.0 {
            for b in l {
                if b.is_ascii_graphic() && *b != b'.' && *b != b'\\' {
                    write!(f, "{}", *b as char)?;
                } else {
                    write!(f, "\\{:03}", b)?;
                }
            }
            write!(f, ".")?;
        }
        Ok(())
    }
}

/// The well-formedness predicate of C16, on the implementation's own type.
pub fn wf_domain(d: &DomainName) -> Result<(), String> {
    if d.labels.is_empty() {
        return Err("no labels".into());
    }
    let last = d.labels.len() - 1;
    let mut len = 0usize;
    for (i, l) in d.labels.iter().enumerate() {
        let n = l.octets().len();
        if n > 63 {
            return Err(format!("label {i} has {n} octets"));
        }
        if (n == 0) != (i == last) {
            return Err(format!("empty-label placement wrong at {i}"));
        }
        if l.octets().iter().any(|b| b.is_ascii_uppercase()) {
            return Err(format!("label {i} stores upper case"));
        }
        len += 1 + n;
    }
    if len > 255 {
        return Err(format!("encoded length {len} > 255"));
    }
    if d.len != len {
        return Err(format!("recorded len {} != encoded length {len}", d.len));
    }
    Ok(())
}

pub fn bytes(b: &[u8]) -> Bytes {
    Bytes::copy_from_slice(b)
}

pub fn hex(b: &[u8]) -> String {
    let mut s = String::with_capacity(b.len() * 2);
    for x in b {
        s.push_str(&format!("{x:02x}"));
    }
    s
}

pub fn unhex(s: &str) -> Vec<u8> {
    let b = s.as_bytes();
    let mut out = Vec::with_capacity(b.len() / 2);
    let mut i = 0;
    while i + 1 < b.len() {
        let h = (b[i] as char).to_digit(16).unwrap_or(0) as u8;
        let l = (b[i + 1] as char).to_digit(16).unwrap_or(0) as u8;
        out.push(h << 4 | l);
        i += 2;
    }
    out
}

/// serde helper: byte vectors as hex strings (compact replay files).
pub mod hexbytes {
    use serde::{Deserialize, Deserializer, Serializer};
    pub fn serialize<S: Serializer>(b: &Vec<u8>, s: S) -> Result<S::Ok, S::Error> {
        s.serialize_str(&super::hex(b))
    }
    pub fn deserialize<'de, D: Deserializer<'de>>(d: D) -> Result<Vec<u8>, D::Error> {
        let s = String::deserialize(d)?;
        Ok(super::unhex(&s))
    }
}

pub fn a_rr(name: &DomainName, addr: [u8; 4], ttl: u32) -> ResourceRecord {
    ResourceRecord {
        name: name.clone(),
        rtype_with_data: RecordTypeWithData::A {
            address: std::net::Ipv4Addr::from(addr),
        },
        rclass: RecordClass::IN,
        ttl,
    }
}

//! Model-based checking of `SharedCache` histories on the virtual clock
//! (hooks H1 and H4).  Used by C05 (TTL behaviour) and C15 (pruning / LRU /
//! size accounting).

use std::collections::{BTreeMap, BTreeSet};

use dns_resolver::cache::{verif, Cache, SharedCache};
use dns_types::protocol::types::*;
use serde::{Deserialize, Serialize};

use crate::gen::Gen;
use crate::util::N;

pub const NAMES: [&str; 4] = ["a.example.", "b.example.", "c.d.example.", "."];
/// A, TXT, MX, NS
pub const TYPES: [u16; 4] = [1, 16, 15, 2];
pub const SEC: u64 = 1_000_000_000;

#[derive(Debug, Clone, PartialEq, Eq, Hash, Serialize, Deserialize)]
pub enum Op {
    Insert { name: u8, rtype: u8, val: u8, ttl: u32 },
    /// a whole answer section at once: (name, type, value, ttl) each
    InsertAll { records: Vec<(u8, u8, u8, u32)> },
    Get { name: u8, rtype: u8 },
    GetAny { name: u8 },
    GetUnchecked { name: u8, rtype: u8 },
    Prune,
    Advance { nanos: u64 },
}

#[derive(Debug, Clone, PartialEq, Eq, Hash, Serialize, Deserialize)]
pub struct History {
    pub desired_size: u8,
    /// true: plain `Cache` (stores TTL-0 records), false: `SharedCache`
    pub plain_cache: bool,
    pub ops: Vec<Op>,
}

pub fn name_of(i: u8) -> DomainName {
    N::parse(NAMES[i as usize % NAMES.len()]).dom()
}

pub fn data_of(rtype: u8, val: u8) -> RecordTypeWithData {
    match TYPES[rtype as usize % TYPES.len()] {
        1 => RecordTypeWithData::A {
            address: std::net::Ipv4Addr::new(10, 0, 0, val),
        },
        16 => RecordTypeWithData::TXT {
            octets: bytes::Bytes::copy_from_slice(&[b'v', val]),
        },
        15 => RecordTypeWithData::MX {
            preference: u16::from(val),
            exchange: N::parse("mx.example.").dom(),
        },
        _ => RecordTypeWithData::NS {
            nsdname: N::parse(&format!("ns{val}.example.")).dom(),
        },
    }
}

pub fn qtype_of(rtype: u8) -> QueryType {
    QueryType::from(TYPES[rtype as usize % TYPES.len()])
}

enum AnyCache {
    Shared(SharedCache),
    Plain(Cache),
}

impl AnyCache {
    fn get(&mut self, n: &DomainName, q: QueryType) -> Vec<ResourceRecord> {
        match self {
            AnyCache::Shared(c) => c.get(n, q),
            AnyCache::Plain(c) => c.get(n, q),
        }
    }
    fn get_unchecked(&mut self, n: &DomainName, q: QueryType) -> Vec<ResourceRecord> {
        match self {
            AnyCache::Shared(c) => c.get_without_checking_expiration(n, q),
            AnyCache::Plain(c) => c.get_without_checking_expiration(n, q),
        }
    }
    fn insert(&mut self, rr: &ResourceRecord) {
        match self {
            AnyCache::Shared(c) => c.insert(rr),
            AnyCache::Plain(c) => c.insert(rr),
        }
    }
    fn prune(&mut self) -> (bool, usize, usize, usize) {
        match self {
            AnyCache::Shared(c) => c.prune(),
            AnyCache::Plain(c) => c.prune(),
        }
    }
    fn insert_all(&mut self, rrs: &[ResourceRecord]) {
        match self {
            AnyCache::Shared(c) => c.insert_all(rrs),
            AnyCache::Plain(c) => {
                for rr in rrs {
                    c.insert(rr);
                }
            }
        }
    }
    fn snapshot(&self) -> verif::Snapshot<DomainName, RecordType, RecordTypeWithData> {
        match self {
            AnyCache::Shared(c) => c.verif_snapshot(),
            AnyCache::Plain(c) => c.verif_snapshot(),
        }
    }
}

/// (family, signature, detail); family "ttl" belongs to C05, "prune" to C15.
pub type Finding = (&'static str, String, String);

#[derive(Default)]
pub struct Stats {
    pub gets_after_advance: u64,
    pub prunes_expire_and_evict: u64,
    pub prunes_evict: u64,
    pub prunes_expire: u64,
    pub reinserts: u64,
    pub reinsert_multi_type_then_prune: bool,
    pub reinsert_multi_type: bool,
    pub hits: u64,
    pub lookups: u64,
}

type Key = (u8, u8, u8);

pub fn run_history(h: &History) -> (Vec<Finding>, Stats) {
    let mut findings: Vec<Finding> = Vec::new();
    let mut stats = Stats::default();
    let desired = (h.desired_size as usize).max(1);
    let mut cache = if h.plain_cache {
        AnyCache::Plain(Cache::with_desired_size(desired))
    } else {
        AnyCache::Shared(SharedCache::with_desired_size(desired))
    };
    let mut now: u64 = SEC;
    verif::set_virtual_nanos(Some(now));

    let mut entries: BTreeMap<Key, u64> = BTreeMap::new(); // -> expiry
    let mut inserted_at: BTreeMap<Key, u64> = BTreeMap::new();
    let mut def_use = [0u64; 4];
    let mut maybe_use = [0u64; 4];
    let mut advanced_since_insert: BTreeSet<Key> = BTreeSet::new();
    let mut pending_multi_reinsert = false;

    let key_of = |rr: &ResourceRecord, nidx: u8| -> Option<Key> {
        for t in 0..4u8 {
            for v in 0..4u8 {
                if data_of(t, v) == rr.rtype_with_data {
                    return Some((nidx, t, v));
                }
            }
        }
        None
    };

    macro_rules! fail {
        ($fam:expr, $sig:expr, $($arg:tt)*) => {{
            findings.push(($fam, $sig.to_string(), format!($($arg)*)));
        }};
    }

    for (step, op) in h.ops.iter().enumerate() {
        match op {
            Op::Insert { name, rtype, val, ttl } => {
                let (n, t, v) = (*name % 4, *rtype % 4, *val % 4);
                let rr = ResourceRecord {
                    name: name_of(n),
                    rtype_with_data: data_of(t, v),
                    rclass: RecordClass::IN,
                    ttl: *ttl,
                };
                let before = if *ttl == 0 && !h.plain_cache { Some(cache.snapshot()) } else { None };
                cache.insert(&rr);
                if *ttl == 0 && !h.plain_cache {
                    // never stored by the shared cache
                    let after = cache.snapshot();
                    let b = before.unwrap();
                    if after.current_size != b.current_size || after.entries.len() != b.entries.len() {
                        fail!("ttl", "ttl0-stored", "step {step}: TTL-0 insert changed the shared cache");
                    }
                } else {
                    let k = (n, t, v);
                    if entries.contains_key(&k) {
                        stats.reinserts += 1;
                        let types_here = entries.keys().filter(|e| e.0 == n).map(|e| e.1).collect::<BTreeSet<_>>().len();
                        if types_here >= 2 {
                            stats.reinsert_multi_type = true;
                            pending_multi_reinsert = true;
                        }
                    }
                    entries.insert(k, now + u64::from(*ttl) * SEC);
                    inserted_at.insert(k, now);
                    advanced_since_insert.remove(&k);
                    def_use[n as usize] = now;
                    maybe_use[n as usize] = now;
                }
            }
            Op::InsertAll { records } => {
                let rrs: Vec<ResourceRecord> = records
                    .iter()
                    .map(|(n, t, v, ttl)| ResourceRecord { name: name_of(*n % 4), rtype_with_data: data_of(*t % 4, *v % 4), rclass: RecordClass::IN, ttl: *ttl })
                    .collect();
                cache.insert_all(&rrs);
                // same meaning as inserting them one after the other; the
                // comparison of the stored set with the model (below) reports a
                // TTL-0 record that the shared cache kept
                for (n, t, v, ttl) in records {
                    let (n, t, v) = (*n % 4, *t % 4, *v % 4);
                    if *ttl == 0 && !h.plain_cache {
                        continue;
                    }
                    let k = (n, t, v);
                    if entries.contains_key(&k) {
                        stats.reinserts += 1;
                    }
                    entries.insert(k, now + u64::from(*ttl) * SEC);
                    inserted_at.insert(k, now);
                    advanced_since_insert.remove(&k);
                    def_use[n as usize] = now;
                    maybe_use[n as usize] = now;
                }
            }
            Op::Get { name, rtype } | Op::GetUnchecked { name, rtype } => {
                let (n, t) = (*name % 4, *rtype % 4);
                let unchecked = matches!(op, Op::GetUnchecked { .. });
                let rrs = if unchecked {
                    cache.get_unchecked(&name_of(n), qtype_of(t))
                } else {
                    cache.get(&name_of(n), qtype_of(t))
                };
                check_lookup(&rrs, n, Some(t), unchecked, now, step, &entries, &key_of, &mut findings, &mut stats, &advanced_since_insert);
                note_use(&rrs, n, now, &entries, &mut def_use, &mut maybe_use);
            }
            Op::GetAny { name } => {
                let n = *name % 4;
                let rrs = cache.get(&name_of(n), QueryType::Wildcard);
                check_lookup(&rrs, n, None, false, now, step, &entries, &key_of, &mut findings, &mut stats, &advanced_since_insert);
                note_use(&rrs, n, now, &entries, &mut def_use, &mut maybe_use);
            }
            Op::Advance { nanos } => {
                now = now.saturating_add(*nanos);
                if *nanos > 0 {
                    for k in entries.keys() {
                        advanced_since_insert.insert(*k);
                    }
                }
            }
            Op::Prune => {
                let size_before = entries.len();
                let expired: Vec<Key> = entries.iter().filter(|(_, e)| **e <= now).map(|(k, _)| *k).collect();
                let want_overflow = size_before > desired;
                let (overflow, size_after, n_expired, n_evicted) = cache.prune();
                let snap = cache.snapshot();
                // expired records leave the model; one that the cache failed to
                // remove is reported below (C15) and kept as stored, so that the
                // TTL checks (C05) go on judging what lookups return
                let mut zombies = 0usize;
                for k in &expired {
                    let still = snap.entries.iter().any(|e| e.0 == name_of(k.0) && e.2 == data_of(k.1, k.2));
                    if still {
                        zombies += 1;
                    } else {
                        entries.remove(k);
                    }
                }
                // which names survived?
                let live_names: BTreeSet<DomainName> = snap.entries.iter().map(|e| e.0.clone()).collect();
                let mut evicted_names: Vec<u8> = Vec::new();
                for n in 0..4u8 {
                    let in_model = entries.keys().any(|k| k.0 == n);
                    if in_model && !live_names.contains(&name_of(n)) {
                        evicted_names.push(n);
                    }
                }
                if overflow != want_overflow {
                    fail!("prune", "overflow-flag", "step {step}: prune reported overflow={overflow}, held {size_before} records for desired size {desired}");
                }
                if n_expired != expired.len() {
                    fail!("prune", "expired-count", "step {step}: prune reported {n_expired} expired, {} had expired ({zombies} of them still stored)", expired.len());
                }
                // nothing expired may remain
                for e in &snap.entries {
                    if e.3 <= now {
                        fail!("prune", "expired-left-behind", "step {step}: {} {:?} with expiry {} <= now {} survived prune", e.0, e.1, e.3, now);
                        break;
                    }
                }
                let evicted_records: usize = entries.keys().filter(|k| evicted_names.contains(&k.0)).count();
                if n_evicted != evicted_records {
                    fail!("prune", "evicted-count", "step {step}: prune reported {n_evicted} evicted, {evicted_records} records of whole names disappeared");
                }
                let model_after = entries.len() - evicted_records;
                if size_after != model_after {
                    fail!("prune", "size-report", "step {step}: prune reported size {size_after}, model holds {model_after}");
                }
                if snap.current_size > desired {
                    fail!("prune", "over-size-after-prune", "step {step}: {} records left for desired size {desired}", snap.current_size);
                }
                if !evicted_names.is_empty() {
                    if entries.len() <= desired {
                        fail!("prune", "evicted-while-not-over-size", "step {step}: evicted {evicted_names:?} although only {} unexpired records for desired {desired}", entries.len());
                    } else {
                        // only while over size: undoing some single eviction must exceed the size
                        let per_name = |n: u8| entries.keys().filter(|k| k.0 == n).count();
                        if !evicted_names.iter().any(|n| model_after + per_name(*n) > desired) {
                            fail!("prune", "evicted-too-much", "step {step}: evicted {evicted_names:?}, more than needed to reach {desired}");
                        }
                    }
                    // least recently used first
                    for x in &evicted_names {
                        for y in 0..4u8 {
                            let y_live = entries.keys().any(|k| k.0 == y) && !evicted_names.contains(&y);
                            if y_live && def_use[*x as usize] > maybe_use[y as usize] {
                                fail!("prune", "not-lru", "step {step}: evicted {} (used at {}) while {} (last possibly used at {}) survived", NAMES[*x as usize], def_use[*x as usize], NAMES[y as usize], maybe_use[y as usize]);
                            }
                        }
                    }
                    // whole names only
                    for e in &snap.entries {
                        for x in &evicted_names {
                            if e.0 == name_of(*x) {
                                fail!("prune", "partial-eviction", "step {step}: part of {} survived its eviction", NAMES[*x as usize]);
                            }
                        }
                    }
                }
                // statistics
                match (expired.is_empty(), evicted_names.is_empty()) {
                    (false, false) => stats.prunes_expire_and_evict += 1,
                    (false, true) => stats.prunes_expire += 1,
                    (true, false) => stats.prunes_evict += 1,
                    _ => {}
                }
                if pending_multi_reinsert {
                    stats.reinsert_multi_type_then_prune = true;
                }
                // adopt the implementation's (validated) choice
                entries.retain(|k, _| !evicted_names.contains(&k.0));
            }
        }

        // invariants after every operation
        let snap = cache.snapshot();
        let mut seen: BTreeSet<(DomainName, RecordTypeWithData)> = BTreeSet::new();
        let mut dup = false;
        for e in &snap.entries {
            if !seen.insert((e.0.clone(), e.2.clone())) {
                dup = true;
            }
        }
        if dup {
            fail!("prune", "duplicate-entry", "step {step} ({op:?}): the same (name, type, data) is stored twice");
        }
        if snap.current_size != seen.len() || snap.current_size != snap.entries.len() {
            fail!("prune", "size-accounting", "step {step} ({op:?}): current_size {} but {} distinct entries ({} stored)", snap.current_size, seen.len(), snap.entries.len());
        }
        let part_sum: usize = snap.partitions.iter().map(|p| p.3).sum();
        if part_sum != snap.current_size {
            fail!("prune", "size-accounting", "step {step}: per-name sizes sum to {part_sum}, current_size {}", snap.current_size);
        }
        // the stored set is exactly the model's (C05: nothing lost, resurrected or re-timed)
        let mut stored: BTreeMap<Key, u64> = BTreeMap::new();
        for e in &snap.entries {
            let nidx = (0..4u8).find(|i| name_of(*i) == e.0);
            let k = nidx.and_then(|n| {
                let rr = ResourceRecord { name: e.0.clone(), rtype_with_data: e.2.clone(), rclass: RecordClass::IN, ttl: 0 };
                key_of(&rr, n)
            });
            match k {
                Some(k) => {
                    stored.insert(k, e.3);
                }
                None => fail!("ttl", "foreign-entry", "step {step}: cache holds {} {:?} which was never inserted", e.0, e.2),
            }
        }
        if stored != entries {
            let lost: Vec<_> = entries.keys().filter(|k| !stored.contains_key(k)).collect();
            let extra: Vec<_> = stored.keys().filter(|k| !entries.contains_key(k)).collect();
            let retimed: Vec<_> = entries.iter().filter(|(k, e)| stored.get(k).map_or(false, |s| s != *e)).map(|(k, _)| k).collect();
            if !lost.is_empty() {
                fail!("ttl", "record-lost", "step {step} ({op:?}): {lost:?} missing from the cache (neither expired+pruned nor evicted)");
            }
            if !extra.is_empty() {
                fail!("ttl", "record-resurrected", "step {step} ({op:?}): {extra:?} stored although removed");
            }
            if !retimed.is_empty() {
                fail!("ttl", "wrong-expiry", "step {step} ({op:?}): {retimed:?} stored with an expiry different from insert time + TTL");
            }
        }
        // documented structural invariants of the cache (cache.rs INVARIANT comments)
        let pkeys: BTreeSet<&DomainName> = snap.partitions.iter().map(|p| &p.0).collect();
        let akeys: BTreeSet<&DomainName> = snap.access_queue.iter().map(|p| &p.0).collect();
        let ekeys: BTreeSet<&DomainName> = snap.expiry_queue.iter().map(|p| &p.0).collect();
        if pkeys != akeys || pkeys != ekeys || snap.access_queue.len() != pkeys.len() || snap.expiry_queue.len() != pkeys.len() {
            fail!("prune", "queue-keys", "step {step} ({op:?}): queues and partitions hold different names");
        }
        for p in &snap.partitions {
            let min_exp = snap.entries.iter().filter(|e| e.0 == p.0).map(|e| e.3).min();
            if let Some(m) = min_exp {
                if p.2 != m {
                    fail!("prune", "next-expiry-not-min", "step {step} ({op:?}): {} has next_expiry {} but its earliest record expires at {m}", p.0, p.2);
                }
            } else {
                fail!("prune", "empty-partition", "step {step} ({op:?}): {} is kept without records", p.0);
            }
            if let Some(q) = snap.expiry_queue.iter().find(|q| q.0 == p.0) {
                if q.1 != p.2 {
                    fail!("prune", "expiry-queue-priority", "step {step} ({op:?}): {} queued with {} but next_expiry is {}", p.0, q.1, p.2);
                }
            }
            if let Some(q) = snap.access_queue.iter().find(|q| q.0 == p.0) {
                if q.1 != p.1 {
                    fail!("prune", "access-queue-priority", "step {step} ({op:?}): {} queued with {} but last_read is {}", p.0, q.1, p.1);
                }
            }
        }

        if findings.len() > 6 {
            break;
        }
        now += 1;
        verif::set_virtual_nanos(Some(now));
    }
    verif::set_virtual_nanos(None);
    (findings, stats)
}

#[allow(clippy::too_many_arguments)]
fn check_lookup(
    rrs: &[ResourceRecord],
    n: u8,
    t: Option<u8>,
    unchecked: bool,
    now: u64,
    step: usize,
    entries: &BTreeMap<Key, u64>,
    key_of: &dyn Fn(&ResourceRecord, u8) -> Option<Key>,
    findings: &mut Vec<Finding>,
    stats: &mut Stats,
    advanced: &BTreeSet<Key>,
) {
    stats.lookups += 1;
    let mut returned: BTreeMap<Key, u32> = BTreeMap::new();
    for rr in rrs {
        if rr.name != name_of(n) || rr.rclass != RecordClass::IN {
            findings.push(("ttl", "wrong-owner".into(), format!("step {step}: lookup of {} returned a record for {}", NAMES[n as usize], rr.name)));
            continue;
        }
        let Some(k) = key_of(rr, n) else {
            findings.push(("ttl", "data-changed".into(), format!("step {step}: returned data {:?} was never inserted", rr.rtype_with_data)));
            continue;
        };
        if let Some(t) = t {
            if k.1 != t {
                findings.push(("ttl", "wrong-type".into(), format!("step {step}: asked type index {t}, got {:?}", rr.rtype_with_data.rtype())));
            }
        }
        if returned.insert(k, rr.ttl).is_some() {
            findings.push(("ttl", "returned-twice".into(), format!("step {step}: {k:?} returned twice")));
        }
        match entries.get(&k) {
            None => findings.push(("ttl", "returned-removed-record".into(), format!("step {step}: {k:?} returned but it was never inserted / already removed"))),
            Some(exp) => {
                let remaining = exp.saturating_sub(now);
                if !unchecked && remaining == 0 {
                    findings.push(("ttl", "served-past-ttl".into(), format!("step {step}: {k:?} returned with ttl {} although it expired at {exp}, now {now}", rr.ttl)));
                } else if u64::from(rr.ttl) * SEC > remaining {
                    findings.push(("ttl", "ttl-exceeds-remaining".into(), format!("step {step}: {k:?} reported ttl {} s with {remaining} ns left", rr.ttl)));
                }
                if advanced.contains(&k) {
                    stats.gets_after_advance += 1;
                }
            }
        }
    }
    if !rrs.is_empty() {
        stats.hits += 1;
    }
    // completeness: every live record of the name/type with >= 1 s left
    for (k, exp) in entries {
        if k.0 != n || t.map_or(false, |t| t != k.1) {
            continue;
        }
        let remaining = exp.saturating_sub(now);
        if remaining >= SEC && !returned.contains_key(k) {
            findings.push(("ttl", "live-record-not-returned".into(), format!("step {step}: {k:?} with {remaining} ns left was not returned")));
        }
    }
}

fn note_use(rrs: &[ResourceRecord], n: u8, now: u64, entries: &BTreeMap<Key, u64>, def_use: &mut [u64; 4], maybe_use: &mut [u64; 4]) {
    if !rrs.is_empty() {
        def_use[n as usize] = now;
        maybe_use[n as usize] = now;
    } else if entries.keys().any(|k| k.0 == n) {
        maybe_use[n as usize] = now;
    }
}

// --------------------------------------------------------------------------
// generation

pub struct HistoryOpts {
    pub max_ops: usize,
    /// weight of (insert, get, getany, unchecked, prune, advance)
    pub weights: [u32; 6],
    pub max_size: usize,
}

pub fn gen_history(g: &mut Gen, o: &HistoryOpts) -> History {
    let desired_size = g.range(1, o.max_size) as u8;
    let plain_cache = g.chance(1, 6);
    let n = g.range(1, o.max_ops);
    let mut ops = Vec::with_capacity(n);
    let mut last_ttl: u32 = 300;
    for _ in 0..n {
        let op = match g.weighted(&o.weights) {
            0 if g.chance(1, 4) => {
                // an answer section: several records at once, TTL 0 among them
                let k = g.range(2, 4);
                let records = (0..k)
                    .map(|_| {
                        let ttl = g.pick(&[300u32, 0, 1, 2, 5, 0]);
                        if ttl > 0 {
                            last_ttl = ttl;
                        }
                        (g.below(4) as u8, g.below(4) as u8, g.below(3) as u8, ttl)
                    })
                    .collect();
                Op::InsertAll { records }
            }
            0 => {
                let ttl = g.pick(&[300u32, 1, 2, 5, 0, u32::MAX, 1, 2]);
                if ttl > 0 {
                    last_ttl = ttl;
                }
                Op::Insert {
                    name: g.below(4) as u8,
                    rtype: g.below(4) as u8,
                    val: g.below(3) as u8,
                    ttl,
                }
            }
            1 => Op::Get { name: g.below(4) as u8, rtype: g.below(4) as u8 },
            2 => Op::GetAny { name: g.below(4) as u8 },
            3 => Op::GetUnchecked { name: g.below(4) as u8, rtype: g.below(4) as u8 },
            4 => Op::Prune,
            _ => {
                let t = u64::from(last_ttl.min(400)) * SEC;
                let nanos = match g.weighted(&[2, 1, 1, 2, 2, 2, 2, 1]) {
                    0 => SEC,
                    1 => 1,
                    2 => 1_000_000,
                    3 => 999_000_000,
                    4 => t.saturating_sub(1_000_000),
                    5 => t,
                    6 => t + 1_000_000,
                    _ => 3600 * SEC,
                };
                Op::Advance { nanos }
            }
        };
        ops.push(op);
    }
    History { desired_size, plain_cache, ops }
}

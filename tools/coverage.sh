#!/bin/bash
# tools/coverage.sh [IDs...] : line coverage of /repo/crates/* reached by the quick tiers of the in-process checks
# (instrumented harness build in /verif/target/cov; evidence files are rewritten by these runs).
set -e
TOOLS=$(dirname $(rustup which --toolchain nightly rustc))/../lib/rustlib/x86_64-unknown-linux-gnu/bin
cd /verif/harness
LLVM_PROFILE_FILE=/verif/target/cov/build-%p-%m.profraw RUSTFLAGS="--cfg resolved_verif -C instrument-coverage" cargo build --release --target-dir /verif/target/cov 2>&1 | tail -1
rm -rf /verif/target/cov/prof; mkdir -p /verif/target/cov/prof
ids="${@:-C01 C02 C03 C04 C05 C06 C07 C08 C10 C11 C12 C13 C14 C15 C16 C17 C18}"
cd /verif
for id in $ids; do
  LLVM_PROFILE_FILE=/verif/target/cov/prof/$id-%p-%m.profraw VERIF_SHARDS=4 /verif/target/cov/release/vcheck $id quick 2>&1 | grep -v "^proptest" | tail -1 | cut -c1-160
done
$TOOLS/llvm-profdata merge -sparse /verif/target/cov/prof/*.profraw -o /verif/target/cov/all.profdata
$TOOLS/llvm-cov report /verif/target/cov/release/vcheck -instr-profile=/verif/target/cov/all.profdata \
   --ignore-filename-regex='(\.cargo|rustc|/verif/harness|crates/resolved/src/metrics)' 2>/dev/null | grep -E "repo/crates|TOTAL|Filename" | cut -c1-200

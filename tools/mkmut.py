#!/usr/bin/env python3
"""mkmut.py <out.diff> <file-relative-to-/repo> <old> <new>  - make a mutant patch by literal replacement (first occurrence must be unique)."""
import subprocess, sys
out, path, old, new = sys.argv[1:5]
p = "/repo/" + path
s = open(p).read()
if s.count(old) != 1:
    print(f"pattern occurs {s.count(old)} times in {path}", file=sys.stderr); sys.exit(2)
open(p, "w").write(s.replace(old, new))
d = subprocess.run(["git", "-C", "/repo", "diff"], capture_output=True, text=True).stdout
open(out, "w").write(d)
subprocess.run(["git", "-C", "/repo", "checkout", "--", "."])
print(f"wrote {out} ({len(d.splitlines())} lines)")

#!/bin/bash
# tools/confirm_seed.sh <ID> <n> <crate> : in the scratch worktree /tmp/wt/<ID>, confirm that
# change<n>.diff compiles, keeps the 149 tests green, makes demo<n>.rs fail, and that the demo passes without it.
id=$1; n=$2; crate=$3
wt=/tmp/wt/$id
cd $wt || exit 2
git checkout -q -- . 2>/dev/null
mkdir -p crates/$crate/tests
cp seeded/demo$n.rs crates/$crate/tests/seeded_demo$n.rs
echo "--- without the change: demo must pass"
cargo test --offline -p $crate --test seeded_demo$n 2>&1 | grep -E "^test result|panicked|error(\[|:)" | head -5
git apply seeded/change$n.diff || { echo "PATCH DOES NOT APPLY"; exit 2; }
echo "--- with the change: suite must pass, demo must fail"
cargo test --workspace --no-fail-fast --offline 2>&1 | grep -E "^test result: .* [1-9][0-9]* (passed|failed)|^error(\[|:)|seeded_demo" | head -12
git checkout -q -- .
rm -f crates/$crate/tests/seeded_demo$n.rs
git status --short | grep -v seeded | head

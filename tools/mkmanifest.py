#!/usr/bin/env python3
"""Regenerates /verif/MANIFEST.json from the table below (run after adding a check)."""
import json, subprocess

PBT = "property-based testing: proptest-generated choice tapes decoded into cases, explicit oracle, shrinking to a replay file"

CHECKS = {
    "C02": dict(
        level="exploration",
        technique=PBT + "; differential against an independent reference lookup (R-ZONE) plus exhaustive small-scope enumeration",
        text="Generated and exhaustively enumerated small zones are asked every interesting name x 23 query types and each result is compared with an independent RFC 1034/4592 lookup over a flat record list. Exploration: held on every zone/query explored, no absence claim.",
        note="R-ZONE (harness/src/rzone.rs) is the trusted oracle; zones with data below a cut (D1) and wildcard NS (D2) are outside the claim.",
        ref="DESIGN.md §4 C02, Appendix A"),
    "C03": dict(
        level="exploration",
        technique=PBT + "; differential against an independent RFC 1035 decoder (R-WIRE) over exhaustive single-byte mutants/truncations of generated messages, enumerated adversarial constructions and random bytes; crash isolation in child processes on 2 MiB stacks",
        text="Every input is judged by: no panic/abort/stack overflow (child process, 2 MiB thread, release build), ID rule for Ok and Err, accept/reject equal to R-WIRE's and all decoded fields equal. Inputs: all single-byte mutations and truncations of generated valid messages encoded with arbitrary compression, ~150 adversarial constructions incl. maximal backward pointer chains, random bytes. Exploration, no absence claim; hangs surface as exit 2 (budget).",
        note="R-WIRE (harness/src/rwire.rs) with the stated pointer/trailing-bytes policy is the trusted oracle; the stack bound is checked on a shallow 2 MiB thread, the real server path is exercised in C09.",
        ref="DESIGN.md §4 C03, Appendix B"),
    "C04": dict(
        level="exploration",
        technique=PBT + "; round trip through the implementation's codec, differential decode by R-WIRE, pointer audit; exhaustive header sweep and 16 KiB boundary sweep",
        text="from_octets(to_octets(m)) == m for generated and enumerated messages (all 8192 header combinations exhaustively; bodies with shared names; encodings from 12 B to 64 KiB with the first occurrence of a name at every offset 16370..16400), the same bytes decode to the same message with the independent decoder, every emitted pointer addresses an earlier in-line copy of the identical name, and decode(encode(decode b)) == decode b for decodable byte strings.",
        note="R-WIRE decoder and the pointer audit walker are trusted; equality is judged through public fields and the implementation's PartialEq.",
        ref="DESIGN.md §4 C04"),
    "C05": dict(
        level="exploration",
        technique=PBT + "; stateful model-based testing: operation histories on a virtual clock against a map model (name,type,data)->expiry",
        text="Random histories of insert / re-insert / typed, ANY and unchecked lookup / prune / clock advance (second and sub-second steps around each TTL) run against SharedCache and Cache on a virtual clock; after every lookup the result is judged against the model (never past TTL, reported TTL <= time left, live records returned exactly once, data unchanged) and after every step the stored set equals the model.",
        note="Hooks H1 (virtual clock) and H4 (snapshot) are trusted to be faithful; sub-second remainders are a stated tolerance.",
        ref="DESIGN.md §4 C05"),
    "C06": dict(
        level="exploration",
        technique=PBT + "; validity predicate over adversarial replies fed to the reply filter directly (hook H3) and end to end through resolve() with a scripted mock transport (hook H2) followed by a provenance sweep of the cache",
        text="Adversarial replies (on/off-path and duplicate CNAMEs, NS for non-ancestors or with foreign owners, shallower/equal/deeper NS, glue for named and unnamed hosts, unknown types/classes, in every section) are judged against a validity predicate of what may be accepted for the question and match count; end to end, scripted reply sequences with header faults are played to the recursive resolver and every record that ends up in the answer or the cache must be traceable by its tag to a reply without header fault and be relevant to the question that reply answered.",
        note="Only-direction (soundness of what is accepted); completeness is C07's. Record tags are TTL values under a frozen cache clock.",
        ref="DESIGN.md §4 C06"),
    "C07": dict(
        level="exploration",
        technique=PBT + "; simulated DNS universe behind a mock transport (hook H2), differential against a globally computed ground truth; sessions of questions sharing one cache",
        text="Generated consistent delegation trees (mixed glue, in/out-of-bailiwick nameservers, v4/v6/dual hosts, cross-zone aliases, wildcards, empty non-terminals) are served by mock authoritative servers whose behaviour is computed from the universe by R-ZONE; sessions of 1..6 questions sharing a cache must each return exactly the ground-truth alias chain and final RRset (or the SOA for NODATA/NXDOMAIN), and the servers asked for a question never get shallower.",
        note="UNIVERSE server model and ground truth (harness/src/universe.rs) are trusted; time is tokio's paused clock and the frozen H1 cache clock; nameserver order is RandomState-dependent.",
        ref="DESIGN.md §4 C07, Appendix C"),
    "C08": dict(
        level="fault_enumeration",
        technique=PBT + "; fault injection through a mock transport on tokio's paused clock: generated fault plans plus exhaustive enumeration of all fault assignments to the first exchanges of a fixed resolution",
        text="Per-exchange faults (drop, delays around the 5 s and 60 s limits, garbage, truncation, wrong ID, TC, error rcodes, altered question, transport failure, QR clear) and structural faults (lame servers, circular and upward referrals, withheld glue, unresolvable nameserver sets, alias loops in zones and cache, over-long chains) are injected into recursive and forwarding resolutions; each must return within 60 s of virtual time, abandon every exchange within 5 s, never panic, and return only records that a delivered reply, the hints or the pre-seeded cache supplied. All 16^2 (quick) / 16^3 (thorough) fault assignments to the first exchanges of a three-level resolution are enumerated in both modes.",
        note="Virtual time only: a real-time hang surfaces as the wall-clock budget (exit 2). The UDP receive path is mirrored inside the transport hook.",
        ref="DESIGN.md §4 C08"),
    "C10": dict(
        level="exploration",
        technique=PBT + "; generated alias graphs with links placed in zones, cache, upstream and forwarder; order/ownership/tag oracle plus completeness for obtainable acyclic chains",
        text="Alias chains of 0..40 links with each link in an authoritative zone, the non-authoritative zone, the cache, an upstream server or the forwarder, optional cycles and four kinds of chain end are resolved in local-only, recursive and forwarding mode; the answer must be a prefix of the real chain in order followed only by records of the asked type at the final target, nothing twice, complete for acyclic chains of at most 24 obtainable links ending in data, and cycles / over-long chains must end in an error or prefix within the time budget on a 2 MiB stack.",
        note="Upstream replies list chains in chain order (D3); CNAME/ANY questions excluded (D4).",
        ref="DESIGN.md §4 C10"),
    "C11": dict(
        level="exploration",
        technique=PBT + "; grammar-based generation: a denotation is rendered through every optional-field/layout/quoting/escaping variant, parse result compared with the denotation; single-fault corruptions must be rejected",
        text="A record set over all supported types is rendered to master-file text with independently chosen owner/TTL/class omission and order, $ORIGIN changes, layout noise, parenthesised groups, quoting and escapes; the parsed zone must equal the denotation (TTLs raised to the SOA minimum), and each of 11 single-fault corruptions must make the parser return an error.",
        note="The renderer (harness/src/ztext.rs) is the trusted statement of RFC 1035 §5 semantics; grammar-ambiguous tokens are excluded (D5, D6).",
        ref="DESIGN.md §4 C11"),
    "C12": dict(
        level="exploration",
        technique=PBT + "; differential against a set-union model and R-ZONE over the union, in memory and through files/directories on disk",
        text="1..5 zone files and 0..3 hosts files with shared apexes, differing SOAs, overlapping and wildcard records are composed in memory and through load_zone_configuration on disk; per apex the merged zone equals the set union with the last SOA (exactly one), every question resolves as R-ZONE over the union, hosts entries follow last-file-wins, directories are applied sorted, any bad file yields no configuration.",
        note="R-ZONE and the union model are trusted; lookups compared only inside scope D1.",
        ref="DESIGN.md §4 C12"),
    "C13": dict(
        level="exploration",
        technique=PBT + "; round-trip oracle deserialise(serialise(z)) == z on zones from generated text and from the API, and through the shipped ztoz binary twice",
        text="Zones parsed from generated text with labels over ASCII octets (quotes, backslashes, semicolons, parentheses, blanks, @, *, control characters) and RDATA over all 256 octets, and API-built zones, are serialised and re-parsed (twice); the result must be semantically equal. The ztoz binary is run on the same texts and on its own output.",
        note="Semantic equality = apex, SOA, sorted multisets of (owner, wildcard?, rdata, ttl); byte equality is not demanded.",
        ref="DESIGN.md §4 C13"),
    "C14": dict(
        level="exploration",
        technique=PBT + "; model-based: lines folded in order by a reference reading of hosts(5); round trips through text, zone and the htoh/htoz/ztoh binaries",
        text="Generated hosts files (IPv4/IPv6 in all textual forms, 1..4 names per line, arbitrary blanks, comments after blanks or glued to a field incl. non-ASCII comment text, blank/address-only/%iface lines, duplicate and conflicting lines, single malformed address or name) must parse to exactly the folded model or fail iff faulty; serialise/deserialise identity; the zone conversion has one A/AAAA record with TTL 5 per mapping, resolves each name and converts back.",
        note="The reference reading of hosts(5) in harness/src/props/c14.rs is trusted; address-only lines with malformed addresses are unspecified and not generated.",
        ref="DESIGN.md §4 C14"),
    "C17": dict(
        level="exploration",
        technique=PBT + " and coverage-guided fuzzing (libFuzzer targets zone_total / hosts_total in the thorough tier); totality oracle in crash-isolated child processes on 2 MiB stacks",
        text="Token soup, arbitrary Unicode, grammar-aware mutations of valid zone and hosts files and enumerated very long inputs are fed to both parsers and to load_zone_configuration; they must return (no panic, abort or stack overflow; hang = inconclusive) and accepted values must survive serialise and re-parse.",
        note="A hang is reported as exit 2 (inconclusive), not as a violation.",
        ref="DESIGN.md §4 C17"),
    "C15": dict(
        level="exploration",
        technique=PBT + "; stateful model-based testing with an LRU model and structural invariants after every step; OS-thread stress runs for the concurrent clause",
        text="Every prune in a generated history is judged by a sequential LRU model (true expired/evicted/remaining counts, nothing expired left, size bound, whole names, LRU order up to stated use intervals, eviction only while over size); after every operation the record count equals the number of distinct entries and the documented queue/next-expiry invariants hold. Concurrent clause: 2..8 threads on one SharedCache, invariants at quiescence (schedule not controlled).",
        note="Hooks H1/H4 trusted; thread schedules are the OS's (DESIGN §7).",
        ref="DESIGN.md §4 C15"),
    "C16": dict(
        level="exploration",
        technique=PBT + "; validity predicate + metamorphic case-flip relation; exhaustive enumeration at the 63/255 boundaries",
        text="Every constructor of DomainName is fed generated inputs around the limits plus the exhaustive set of label-length compositions with encoded length 250..258; results must satisfy the well-formedness predicate and match an independent judgement of validity; case flips must not change equality, hash, zone selection, zone lookup or cache lookup.",
        note="The well-formedness predicate and the reference validity rules in harness/src/props/c16.rs are trusted.",
        ref="DESIGN.md §4 C16"),
}

CHECKS["C18"] = dict(
    level="exploration",
    technique=PBT + "; invariant over the transport log of generated universes, judged by the mock at the instant of each exchange (cache inspected through hook H4)",
    text="In generated universes with v4-only, v6-only and dual nameserver hosts, sessions of questions run in all four protocol modes with the default or a random upstream port, and in forwarding mode; every exchange must go to the configured port, to the permitted family, never to a non-preferred address of a host while the hints or the cache hold a preferred-family address for it, the resolver's own address look-ups must ask for the preferred family first, and in forwarding mode every exchange goes to the forwarder.",
    note="Which host an address belongs to is known from the universe (one address per family and host).",
    ref="DESIGN.md §4 C18")

CHECKS["C01"] = dict(
    level="exploration",
    technique=PBT + "; generated configurations x poisoned cache x lying upstream, judged by R-ZONE as the oracle of what each local zone holds; provenance by record tags",
    text="Nested authoritative and non-authoritative zones (from text and API), hosts entries, a cache pre-seeded with tagged records that collide with zone owners and types, and an upstream that answers every question with tagged lies are combined; questions of all types incl. ANY/AXFR run in authoritative-only, recursive and forwarding mode. Every record owned by an authoritative zone must be derivable from it, authoritative answers / denials are exact with the zone's SOA and no upstream exchange, non-authoritative overrides are returned exactly and never mixed with tagged records of the same name and type, and a name error appears only on the word of an authoritative zone.",
    note="R-ZONE decides what a zone holds; scope D1/D2; alias chains that leave the authoritative zones are judged by the per-record rule only.",
    ref="DESIGN.md §4 C01")

CHECKS["C09"] = dict(
    level="exploration",
    technique=PBT + "; end-to-end against the shipped binary over loopback UDP/TCP: generated message batches, replies read only by the independent decoder, differential against the in-process resolver for content; scripted loopback forwarder for the forwarding configuration",
    text="Batches of well-formed, mutated, adversarial and runt messages are sent to a running resolved over UDP and TCP (whole, dribbled, half-closed, with trailing junk); every message must get no reply (QR=1, <2 octets) or exactly one reply with the same ID and QR set, with the rcode class, echo, RA, UDP size/TC and TCP length-prefix rules of the property, content equal to the in-process resolver's result through the documented mapping, answers only on the question's alias chain, and the process must stay up and answer a sentinel after every batch. A second server forwards to a scripted forwarder (cut datagrams, TC, garbage, aliases, NXDOMAIN, silence): every returned record must have been supplied by the forwarder or a zone file.",
    note="Timing: replies are collected until the sentinel reply plus 60 ms; F14 (referral NS records in the answer section) is a listed known finding.",
    ref="DESIGN.md §4 C09")
CHECKS["C19"] = dict(
    level="fault_enumeration",
    technique=PBT + "; stateful histories of configuration edits and injected file faults against the shipped binary, SIGUSR1 reloads, version-marked records probed before, during and after each reload",
    text="Histories of 3..10 reloads rewrite all configuration files with version-marked records, add/remove optional files and plant file faults (syntax error, non-UTF-8, file replaced by a directory or removed, bad hosts line, second SOA); the log must report success iff no fault was planted, every reply around the reload must be internally consistent and of the previous or new good version (incl. an alias crossing two files), afterwards every probe shows exactly the good version and optional records exist iff their file belongs to it, and the server answers every probe throughout.",
    note="Probe timing relative to the swap is not controlled (DESIGN §7); the number of replies inside reload windows is reported.",
    ref="DESIGN.md §4 C19")

NOT_YET = {}

def main():
    props = [json.loads(l) for l in open("/verif/properties.jsonl")]
    ids = [p["id"] for p in props]
    commits = subprocess.run(["git", "-C", "/repo", "log", "--format=%H %s"], capture_output=True, text=True).stdout.splitlines()
    hook_commits = [c.split()[0] for c in commits if " verif hook:" in c]
    checks = []
    for i in ids:
        if i not in CHECKS:
            continue
        c = CHECKS[i]
        checks.append({
            "property_id": i,
            "quick_cmd": f"./check {i} quick",
            "thorough_cmd": f"./check {i} thorough",
            "evidence_file": f"/verif/evidence/{i}.json",
            "replay_cmd_template": "./check replay {path}",
            "engine": "vharness",
            "level_claimed": {"category": c["level"], "text": c["text"], "design_ref": c["ref"]},
            "level_note": c["note"],
            "technique": c["technique"],
        })
    na = []
    for i in ids:
        if i not in CHECKS:
            na.append({"property_id": i, "reason": NOT_YET.get(i, "check not built yet in this round (design in DESIGN.md section 4); not claimed until its check exists")})
    m = {
        "version": 1,
        "setup_cmd": "./setup.sh",
        "hooks": {
            "guard": "--cfg resolved_verif",
            "enable": "RUSTFLAGS='--cfg resolved_verif' (set in /verif/harness/.cargo/config.toml; the harness builds /repo/crates/* as path dependencies with it). The repository binaries used by the end-to-end checks are built with the guard OFF.",
            "baseline_off_cmd": "cd /repo && cargo test --workspace --no-fail-fast --offline",
            "source_commits": hook_commits,
            "add_only": True,
        },
        "engines": [
            {"name": "vharness", "path": "/verif/harness", "serves_properties": [c["property_id"] for c in checks],
             "kind_free_text": "Rust harness: proptest drives choice tapes (harness/src/gen.rs) which property modules decode into cases; 16 shard child processes with crash recovery; oracles = reference models (R-ZONE, R-WIRE), round trips, metamorphic relations; evidence + replay files written by the driver (harness/src/engine.rs)."},
        ],
        "checks": checks,
        "not_applicable": na,
        "notes": "VERIF_SEED selects the proptest seeds (default 1). Exit 2 = inconclusive (build failure or wall-clock budget), never a violation. known_findings.txt lists repaired (fixed:) and open (known:) defects.",
    }
    json.dump(m, open("/verif/MANIFEST.json", "w"), indent=1)
    print("checks:", [c["property_id"] for c in checks], "not claimed:", [n["property_id"] for n in na])

if __name__ == "__main__":
    main()

#!/bin/bash
# tools/try_mutant.sh <patch-file> <ID>...   apply a patch to /repo, run the quick checks, revert.
# Prints one line per check: CAUGHT / MISSED (exit code, first VIOLATION line).
patch="$1"; shift
cd /repo || exit 2
if ! git apply --check "$patch" 2>/dev/null; then echo "patch does not apply: $patch"; exit 2; fi
stamp=$(mktemp)
git apply "$patch"
for id in "$@"; do
  out=$(cd /verif && ./check "$id" quick 2>&1)
  rc=$?
  line=$(echo "$out" | grep -m1 "^VIOLATION" )
  sig=$(echo "$out" | grep -v "^KNOWN" | grep -m1 "signature=" | cut -c1-160)
  if [ $rc -eq 1 ]; then echo "CAUGHT $id rc=$rc $sig"; elif [ $rc -eq 0 ]; then echo "MISSED $id"; else echo "INCONCLUSIVE $id rc=$rc $(echo "$out" | tail -2 | cut -c1-200)"; fi
done
git -C /repo checkout -- .
# found-* replays written while the mutant was applied do not belong to the unchanged tree
for id in "$@"; do find /verif/replays/$id -name 'found-*.json' -newer "$stamp" -delete 2>/dev/null; done
rm -f "$stamp"

#!/bin/bash
# tools/process_seed.sh <ID> <n> <demo-crate> <check IDs...>
# 1. confirm the seeded change in its scratch worktree (/tmp/wt/<ID>): suite green with change, demo red with / green without
# 2. run the given checks against it in /repo (apply, check, revert)
# 3. file it under /verif/seeded/<ID>/<n>/ with meta.json
id=$1; n=$2; crate=$3; shift 3
wt=/tmp/wt/$id
dstn=${DSTN:-$n}   # round 2: DSTN=3|4 files change 1|2 as seed 3|4
dst=/verif/seeded/$id/$dstn
cd $wt || exit 2
git checkout -q -- . 2>/dev/null
mkdir -p crates/$crate/tests
cp seeded/demo$n.rs crates/$crate/tests/seeded_demo$n.rs
without=$(cargo test --offline -p $crate --test seeded_demo$n 2>&1 | grep -E "^test result" | tail -1)
git apply seeded/change$n.diff || { echo "PATCH DOES NOT APPLY"; exit 2; }
full=$(cargo test --workspace --no-fail-fast --offline 2>&1)
suite=$(echo "$full" | grep -E "^test result: .* (6[0-9]|8[0-9]) passed" | tr '\n' ' ')
with=$(echo "$full" | grep -A400 "seeded_demo$n" | grep -E "^test result" | head -1)
git checkout -q -- .
rm -f crates/$crate/tests/seeded_demo$n.rs
echo "without change: $without"
echo "with change, suite: $suite"
echo "with change, demo : $with"
ok=1
echo "$without" | grep -q "ok\." || ok=0
echo "$with" | grep -q "FAILED" || ok=0
echo "$suite" | grep -q "63 passed; 0 failed" || ok=0
echo "$suite" | grep -q "86 passed; 0 failed" || ok=0
echo "confirmed=$ok"
results=""
for c in "$@"; do
  r=$(/verif/tools/try_mutant.sh $wt/seeded/change$n.diff $c)
  echo "$r" | cut -c1-220
  results="$results$(echo "$r" | cut -c1-300 | sed 's/"/\\"/g')\\n"
done
mkdir -p $dst
cp $wt/seeded/change$n.diff $dst/patch.diff
cp $wt/seeded/demo$n.rs $dst/demo.rs
cp $wt/seeded/notes$n.md $dst/notes.md
python3 - "$id" "$dstn" "$crate" "$ok" "$without" "$suite" "$with" "$results" <<'PY'
import json, sys
id, n, crate, ok, without, suite, with_, results = sys.argv[1:9]
notes = open(f"/verif/seeded/{id}/{n}/notes.md").read()
meta = {
  "property": id,
  "origin": "sub-agent given only the property text and a scratch worktree",
  "needs_to_manifest": "see notes.md (written by the sub-agent)",
  "demo": f"demo.rs as crates/{crate}/tests/seeded_demo{n}.rs; cargo test --offline -p {crate} --test seeded_demo{n}",
  "confirmed_by_me": ok == "1",
  "what_i_ran": {
    "demo without the change": without,
    "existing suite with the change": suite,
    "demo with the change": with_,
    "checks (tools/try_mutant.sh: git -C /repo apply, ./check <ID> quick, git -C /repo checkout -- .)": [l for l in results.split("\\n") if l],
  },
}
json.dump(meta, open(f"/verif/seeded/{id}/{n}/meta.json", "w"), indent=1)
PY

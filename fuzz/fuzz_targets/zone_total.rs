#![no_main]
//! C17: both configuration parsers are total on arbitrary text.
use libfuzzer_sys::fuzz_target;

fuzz_target!(|data: &[u8]| {
    let text = String::from_utf8_lossy(data);
    if let Err((sig, detail)) = vharness::props::c17::judge_text(&text) {
        panic!("C17 violation {sig}: {detail}");
    }
});

#![no_main]
//! C04: structured messages (decoded from the fuzzer's bytes through the
//! choice-tape generator, RDATA up to 64 KiB) must survive encode/decode.
use libfuzzer_sys::fuzz_target;
use vharness::engine::Outcome;

fuzz_target!(|data: &[u8]| {
    let tape: Vec<u32> = data.chunks(4).map(|c| {
        let mut b = [0u8; 4];
        b[..c.len()].copy_from_slice(c);
        u32::from_be_bytes(b)
    }).collect();
    let mut g = vharness::gen::Gen::new(&tape);
    let big = g.chance(1, 4);
    let o = vharness::wiregen::MsgOpts {
        max_rrs: 6,
        max_questions: 3,
        max_opaque: if big { 65_535 } else { 300 },
        long_names: true,
    };
    let m = vharness::wiregen::gen_wmsg(&mut g, &o);
    let mut out = Outcome::pass(false);
    if let Err((sig, detail)) = vharness::props::c04::roundtrip(&m, &mut out) {
        panic!("C04 violation {sig}: {detail}");
    }
});

#![no_main]
//! C13: whatever parses as a zone survives serialise + parse unchanged.
use libfuzzer_sys::fuzz_target;
use vharness::engine::Outcome;

fuzz_target!(|data: &[u8]| {
    let Ok(text) = std::str::from_utf8(data) else { return };
    let Ok(zone) = dns_types_zone(text) else { return };
    let mut out = Outcome::pass(false);
    if let Err((sig, detail)) = vharness::props::c13::roundtrip_zone(&zone, &mut out) {
        panic!("C13 violation {sig}: {detail}");
    }
});

fn dns_types_zone(text: &str) -> Result<vharness::Zone, ()> {
    vharness::Zone::deserialise(text).map_err(|_| ())
}

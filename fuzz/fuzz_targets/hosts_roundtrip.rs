#![no_main]
//! C14: whatever parses as a hosts file converts losslessly.
use libfuzzer_sys::fuzz_target;

fuzz_target!(|data: &[u8]| {
    let Ok(text) = std::str::from_utf8(data) else { return };
    let Ok(hosts) = vharness::Hosts::deserialise(text) else { return };
    if let Err((sig, detail)) = vharness::props::c14::check_conversions(&hosts) {
        panic!("C14 violation {sig}: {detail}");
    }
});

#![no_main]
//! C03: decoder vs the independent reference decoder on arbitrary bytes.
use libfuzzer_sys::fuzz_target;

fuzz_target!(|data: &[u8]| {
    if let Err((sig, detail)) = vharness::props::c03::judge(data) {
        panic!("C03 violation {sig}: {detail}");
    }
});

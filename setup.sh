#!/bin/bash
# MANIFEST.setup_cmd: offline build of the harness and of the repository binaries.
set -e
export CARGO_NET_OFFLINE=true
mkdir -p /verif/target /verif/evidence
cd /verif/harness
cargo build --release
cd /repo
cargo build --release --offline --target-dir /verif/target/repo-bins -p resolved -p ztoz -p htoh -p htoz -p ztoh
echo setup done
